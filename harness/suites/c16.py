"""C16 — simulated time is an exact, totally ordered integer quantity; the event
queue hands events out in (time, type, task name) order.

Two correspondence suites against the Lean driver:
  * "time":  real `utils.EventTime` vs `Model/Time.lean` on unary / pair / triple cases
             over a value grid x {US, MS, S} (exhaustive) plus random values;
  * "queue": real `simulator.EventQueue` with real `Event`/`Task`/`Placement` objects vs
             `Model/Event.lean` + `Model/Heap.lean` on random operation histories; the
             popped identity and the internal list order are compared after every step.
Model-independent oracle (runs on the implementation's outputs only):
  * time: a reference that keeps plain Python ints of microseconds;
  * queue: every pop / peek is <= every pending event under the key
           (microseconds, EventType.value, task.unique_name); the multiset of queued
           identities follows a shadow counter; drained events come out non-decreasing.
"""
from __future__ import annotations

import json
import sys
from collections import Counter

from harness import common

TECHNIQUE = "Lean 4 proof over hand-written model + differential correspondence"

US_PER = {"US": 1, "MS": 1000, "S": 1000000}  # the reference's own unit table
UNITS = ["US", "MS", "S"]
BOUND = 2**53  # the property quantifies over |microseconds| < 2^53

# --------------------------------------------------------------------------
# real implementation (imported lazily from the repository under test)
# --------------------------------------------------------------------------

_IMPL = {}


def impl():
    if _IMPL:
        return _IMPL
    common.use_repo()
    import random

    import utils as repo_utils

    # EventTime.__init__ consults absl flags for a seed the first time; fix the rng
    # up front so no flag parsing is needed (fuzz() is not exercised here).
    repo_utils.EventTime._rng = random.Random(42)
    import simulator as repo_sim
    from workload import Job, Placement, Task, WorkProfile  # noqa: F401

    _IMPL.update(
        EventTime=repo_utils.EventTime,
        Unit=repo_utils.EventTime.Unit,
        EventType=repo_sim.EventType,
        Event=repo_sim.Event,
        EventQueue=repo_sim.EventQueue,
        Task=Task,
        Job=Job,
        Placement=Placement,
    )
    return _IMPL


def mk_et(d):
    I = impl()
    return I["EventTime"](d["t"], getattr(I["Unit"], d["u"]))


def et_json(x):
    return {"t": x.time, "u": x.unit.name}


def observe(fn):
    """Run one operation of the real code; canonical JSON value or exception class."""
    I = impl()
    try:
        r = fn()
    except Exception as e:  # noqa: BLE001 - the class name is the observation
        return {"err": type(e).__name__}
    if isinstance(r, I["EventTime"]):
        return et_json(r)
    if isinstance(r, (bool, int)):
        return r
    raise TypeError(f"unexpected observation {r!r}")


def call(fn):
    """Run a procedure of the real code: None, or the exception class it raised."""
    try:
        fn()
        return None
    except Exception as e:  # noqa: BLE001
        return {"err": type(e).__name__}


def us(d):
    return d["t"] * US_PER[d["u"]]


def in_bound(*ds):
    return all(abs(us(d)) < BOUND for d in ds)


# --------------------------------------------------------------------------
# time: implementation runner
# --------------------------------------------------------------------------


CTOR_BAD = {"float": 1.5, "integral-float": 2.0, "bool": True, "str": "1", "none": None}


def time_impl(case):
    I = impl()
    U = I["Unit"]
    k = case["kind"]
    if k == "ctor":
        # oracle-only: the constructor must refuse anything that is not exactly an int / a Unit
        return {
            "_time_" + n: observe(lambda v=v: I["EventTime"](v, U.US) and 0) for n, v in CTOR_BAD.items()
        } | {"_unit_number": observe(lambda: I["EventTime"](1, 1000) and 0),
             "_mul_float": observe(lambda: I["EventTime"](1, U.US) * 1.5)}
    a = mk_et(case["a"])
    if k == "unary":
        kk = case["k"]
        return {
            "to_US": observe(lambda: a.to(U.US)),
            "to_MS": observe(lambda: a.to(U.MS)),
            "to_S": observe(lambda: a.to(U.S)),
            "hash": observe(lambda: a.__hash__()),
            "is_invalid": observe(lambda: a.is_invalid()),
            "mul": observe(lambda: a * kk),
            "zero": observe(lambda: I["EventTime"].zero()),
            "invalid": observe(lambda: I["EventTime"].invalid()),
        }
    b = mk_et(case["b"])
    if k == "pair":
        out = {
            "add": observe(lambda: a + b),
            "sub": observe(lambda: a - b),
            "eq": observe(lambda: a == b),
            "ne": observe(lambda: a != b),
            "lt": observe(lambda: a < b),
            "le": observe(lambda: a <= b),
            "gt": observe(lambda: a > b),
            "ge": observe(lambda: a >= b),
            "min": observe(lambda: min(a, b)),
            "max": observe(lambda: max(a, b)),
        }
        # oracle-only observations (not part of the model's reply)
        out["_same_builtin_hash"] = observe(lambda: hash(a) == hash(b))
        out["_set_size"] = observe(lambda: len({a, b}))
        out["_dict_hit"] = observe(lambda: b in {a: 1})
        return out
    c = mk_et(case["c"])
    return {
        "add_l": observe(lambda: (a + b) + c),
        "add_r": observe(lambda: a + (b + c)),
        "sub_l": observe(lambda: (a - b) - c),
        "sub_r": observe(lambda: a - (b + c)),
        "lt_ab": observe(lambda: a < b),
        "lt_bc": observe(lambda: b < c),
        "lt_ac": observe(lambda: a < c),
        "eq_ab": observe(lambda: a == b),
        "eq_bc": observe(lambda: b == c),
        "eq_ac": observe(lambda: a == c),
    }


# --------------------------------------------------------------------------
# time: model-independent oracle (plain integers of microseconds)
# --------------------------------------------------------------------------


def _is_et(o):
    return isinstance(o, dict) and "t" in o and "u" in o


def _units(case):
    return "+".join(case[x]["u"] for x in ("a", "b", "c") if x in case)


def time_oracle(case, o):
    """Failures of the property on the implementation's observations: list of
    (signature, detail). Only cases inside the property's bound are judged, except
    integer-only laws that hold for every magnitude."""
    bad = []
    k = case["kind"]
    if k == "ctor":
        for key_, v in o.items():
            want_err = "RuntimeError" if key_ == "_mul_float" else "ValueError"
            if v != {"err": want_err}:
                bad.append((f"time:non-integer-accepted {key_[1:]}", {"got": v}))
        return bad
    a = case["a"]
    ua = us(a)

    def fail(what, detail=None):
        bad.append((f"time:{what} units={_units(case)}", detail))

    def want_us(key, value):
        r = o[key]
        if not _is_et(r) or us(r) != value:
            fail(f"{key}-not-exact", {"expected_us": value, "got": r})

    def want(key, value):
        if o[key] is not value:
            fail(f"{key}-disagrees-with-us", {"expected": value, "got": o[key]})

    if k == "unary":
        if o["zero"] != {"t": 0, "u": "US"}:
            fail("zero-changed", o["zero"])
        if o["invalid"] != {"t": -1, "u": "US"}:
            fail("invalid-changed", o["invalid"])
        if abs(ua * case["k"]) < 2**1000:
            want_us("mul", ua * case["k"])
        if not in_bound(a):
            return bad
        for u in UNITS:
            r = o["to_" + u]
            if US_PER[u] > US_PER[a["u"]]:
                if r != {"err": "ValueError"}:
                    fail(f"to-coarser-not-refused target={u}", r)
            elif not _is_et(r) or r["u"] != u or us(r) != ua:
                fail(f"to-not-exact target={u}", {"expected_us": ua, "got": r})
        if o["hash"] != ua:
            fail("hash-not-us", {"expected": ua, "got": o["hash"]})
        return bad
    b = case["b"]
    ub = us(b)
    if k == "pair":
        if not in_bound(a, b):
            return bad
        want_us("add", ua + ub)
        want_us("sub", ua - ub)
        want("eq", ua == ub)
        want("ne", ua != ub)
        want("lt", ua < ub)
        want("le", ua <= ub)
        want("gt", ua > ub)
        want("ge", ua >= ub)
        want_us("min", min(ua, ub))
        want_us("max", max(ua, ub))
        if ua == ub:
            if o["_same_builtin_hash"] is not True:
                fail("equal-values-different-hash", o["_same_builtin_hash"])
            if o["_set_size"] != 1:
                fail("equal-values-two-set-members", o["_set_size"])
            if o["_dict_hit"] is not True:
                fail("equal-value-misses-dict", o["_dict_hit"])
        else:
            if o["_set_size"] != 2:
                fail("different-values-one-set-member", o["_set_size"])
            if o["_dict_hit"] is not False:
                fail("different-value-hits-dict", o["_dict_hit"])
        return bad
    c = case["c"]
    uc = us(c)
    if not in_bound(a, b, c):
        return bad
    want_us("add_l", ua + ub + uc)
    want_us("add_r", ua + ub + uc)
    want_us("sub_l", ua - ub - uc)
    want_us("sub_r", ua - ub - uc)
    want("lt_ab", ua < ub)
    want("lt_bc", ub < uc)
    want("lt_ac", ua < uc)
    want("eq_ab", ua == ub)
    want("eq_bc", ub == uc)
    want("eq_ac", ua == uc)
    return bad


# --------------------------------------------------------------------------
# time: generators
# --------------------------------------------------------------------------

GRID_QUICK = [
    0, 1, -1, 2, 999, 1000, -1000, 1001, 999999, 1000000, -1000001, 1234567,
    9007199254, 9007199255, 9007199254740, 9007199254741, -9007199254740,
    2**53 - 1, -(2**53 - 1), 2**53, 2**53 + 1, 72057594037929, sys.maxsize,
]
GRID_TRIPLE_QUICK = [0, 1, -1, 1000, -999, 1000001, 4503599627370, -4503599627370495, 9007199254740, 2**53 - 1, sys.maxsize]
GRID_THOROUGH_EXTRA = [
    3, -2, 7, 500, 1500, -1500, 999999999, 10**9, 10**12, -(10**12), 10**15, 2**31, -(2**31), 2**32 + 1,
    2**52, 2**52 + 1, -(2**52), 4503599627370, 4503599627370496, 2**53 - 2, -(2**53), -(2**53 + 1),
    2**54 + 2, 2**56 + 8, 72057594037929 * 1000, 2**63, -(2**63), 2**64 + 1, 2**80 + 12345, 10**30, 2**1024 - 1,
]


def ets(values):
    return [{"t": v, "u": u} for v in values for u in UNITS]


def rand_value(rng):
    m = rng.choice([8, 16, 24, 33, 43, 50, 52, 53, 54, 60, 70])
    v = rng.getrandbits(m)
    if rng.random() < 0.25:
        v = v // 1000 * 1000  # multiples of the unit factors make cross-unit ties
    return -v if rng.random() < 0.4 else v


def rand_et(rng):
    u = rng.choice(UNITS)
    if rng.random() < 0.7:
        # choose the magnitude in microseconds, then express it in the unit
        return {"t": rand_value(rng) // US_PER[u], "u": u}
    return {"t": rand_value(rng), "u": u}


def gen_time_cases(rng, tier):
    grid = list(GRID_QUICK)
    tgrid = list(GRID_TRIPLE_QUICK)
    n_rand = 3000
    if tier == "thorough":
        grid += GRID_THOROUGH_EXTRA
        tgrid += [2, -1000, 999999, 9007199254, -9007199254740, 2**53, 10**15]
        n_rand = 60000
    cases = [{"suite": "time", "kind": "ctor"}]
    for i, a in enumerate(ets(grid)):
        cases.append({"suite": "time", "kind": "unary", "a": a, "k": [-3, 0, 2, 1000, -1][i % 5]})
    E = ets(grid)
    for a in E:
        for b in E:
            cases.append({"suite": "time", "kind": "pair", "a": a, "b": b})
    T = ets(tgrid)
    for a in T:
        for b in T:
            for c in T:
                cases.append({"suite": "time", "kind": "triple", "a": a, "b": b, "c": c})
    r = rng.sub("time-random")
    for i in range(n_rand):
        a = rand_et(r)
        b = rand_et(r)
        if r.random() < 0.2:  # equal microseconds in a different unit when possible
            ua = us(a)
            for u in UNITS:
                if ua % US_PER[u] == 0 and u != a["u"]:
                    b = {"t": ua // US_PER[u], "u": u}
        kind = ["unary", "pair", "triple"][i % 3]
        c = {"suite": "time", "kind": kind, "a": a}
        if kind == "unary":
            c["k"] = r.randint(-5, 5)
        else:
            c["b"] = b
        if kind == "triple":
            c["c"] = rand_et(r)
        cases.append(c)
    return cases


# --------------------------------------------------------------------------
# queue: implementation runner
# --------------------------------------------------------------------------

_TASKS = {}


def real_task(unique_name):
    """A real `Task` whose unique_name (name@graph) is the given string."""
    if unique_name in _TASKS:
        return _TASKS[unique_name]
    I = impl()
    name, graph = unique_name.split("@", 1)
    t = I["Task"](
        name=name,
        task_graph=graph,
        job=I["Job"](name=name),
        deadline=I["EventTime"](10, I["Unit"].US),
    )
    assert t.unique_name == unique_name
    _TASKS[unique_name] = t
    return t


_NEEDS_TASK = {}


def needs_task(etype_value):
    """Does the Event constructor insist on a task for this type? Asked of the real code."""
    if etype_value in _NEEDS_TASK:
        return _NEEDS_TASK[etype_value]
    I = impl()
    try:
        I["Event"](I["EventType"](etype_value), I["EventTime"](0, I["Unit"].US), task_graph="g")
        r = False
    except ValueError:
        r = True
    _NEEDS_TASK[etype_value] = r
    return r


def real_event(spec):
    I = impl()
    ty = I["EventType"](spec["etype"])
    time = mk_et(spec["repr"])
    task = real_task(spec["task"]) if spec["task"] is not None else None
    placement = None
    if task is not None:
        placement = I["Placement"].create_task_placement(task=task, placement_time=time, worker_pool_id="wp")
    return I["Event"](ty, time, task=task, task_graph="g", placement=placement)


def queue_impl(case):
    """Run the history on the real EventQueue. Returns (steps, raw) where raw keeps,
    per step, what the oracle needs (computed from object attributes only)."""
    I = impl()
    events = [real_event(s) for s in case["events"]]
    ident = {id(e): i for i, e in enumerate(events)}
    q = I["EventQueue"]()
    steps = []
    for op in case["ops"]:
        o = op["op"]
        if o == "add":
            out = call(lambda: q.add_event(events[op["e"]]))
        elif o == "remove":
            out = call(lambda: q.remove_event(events[op["e"]]))
        elif o == "next":
            try:
                out = ident[id(q.next())]
            except Exception as e:  # noqa: BLE001
                out = {"err": type(e).__name__}
        elif o == "peek":
            p = q.peek()
            out = None if p is None else ident[id(p)]
        elif o == "next_of_type":
            try:
                p = q.get_next_event_of_type(I["EventType"](op["t"]))
                out = None if p is None else ident[id(p)]
            except Exception as e:  # noqa: BLE001
                out = {"err": type(e).__name__}
        elif o == "retime":
            events[op["e"]]._time = mk_et(op["repr"])
            out = None
        elif o == "reheapify":
            out = call(q.reheapify)
        elif o == "retime_reheapify":
            events[op["e"]]._time = mk_et(op["repr"])
            out = call(q.reheapify)
        elif o == "len":
            out = len(q)
        elif o == "task_types":
            out = sorted(v for _, v in all_types() if needs_task(v))
        elif o == "sorted":
            try:
                out = [ident[id(e)] for e in sorted(events[i] for i in op["es"])]
            except Exception as e:  # noqa: BLE001
                out = {"err": type(e).__name__}
        elif o == "lt":
            out = observe(lambda: events[op["e"]] < events[op["f"]])
        else:
            raise ValueError(o)
        steps.append({"out": out, "q": [ident[id(e)] for e in q._event_queue]})
    return steps


# --------------------------------------------------------------------------
# queue: model-independent oracle
# --------------------------------------------------------------------------


def queue_oracle(case, steps):
    """Judge the implementation's step outputs with a reference that only knows the
    key (microseconds, type value, task name) of every event and a shadow multiset."""
    if not case.get("judge", True):
        return []
    bad = []
    specs = [dict(s) for s in case["events"]]

    def key(i):
        s = specs[i]
        return (s["time"], s["etype"], s["task"] or "")

    def tdesc(i, j):
        a, b = specs[i], specs[j]
        if a["time"] != b["time"]:
            return "different-times"
        if a["etype"] != b["etype"]:
            return "equal-time-different-types"
        return "equal-time-equal-type-different-names"

    # the documented priority at equal times, by member *name* (values come from the real enum)
    chain = ["TASK_FINISHED", "TASK_PLACEMENT", "SCHEDULER_START"]
    name_of = {v: n for n, v in all_types()}

    def rank(i):
        n_ = name_of.get(specs[i]["etype"])
        return chain.index(n_) if n_ in chain else None

    shadow = Counter()
    last_pop = None  # key of the previous pop while no add/retime/remove intervened
    dirty = False  # a queued event was re-timed in place and the heap not yet rebuilt (API misuse)
    for n, (op, st) in enumerate(zip(case["ops"], steps)):
        o, out, qids = op["op"], st["out"], st["q"]
        if o == "add":
            shadow[op["e"]] += 1
            last_pop = None
        elif o == "remove":
            if shadow[op["e"]] > 0:
                if out is not None:
                    bad.append(("queue:remove-of-queued-event-raised", {"step": n, "out": out}))
                else:
                    dirty = False  # remove_event re-heapifies
                shadow[op["e"]] -= 1
            elif out != {"err": "ValueError"}:
                bad.append(("queue:remove-of-absent-event-not-refused", {"step": n, "out": out}))
        elif o in ("retime", "retime_reheapify"):
            specs[op["e"]]["time"] = op["t"]
            last_pop = None
            if o == "retime_reheapify":
                dirty = False
            elif shadow[op["e"]] > 0:
                dirty = True
        elif o == "reheapify":
            dirty = False
        elif o == "next":
            if sum(shadow.values()) == 0:
                if out != {"err": "IndexError"}:
                    bad.append(("queue:pop-from-empty-not-refused", {"step": n, "out": out}))
            elif not isinstance(out, int) or shadow[out] <= 0:
                bad.append(("queue:pop-returned-non-pending", {"step": n, "out": out}))
            else:
                shadow[out] -= 1
                for y in () if dirty else shadow.elements():
                    if key(y) < key(out):
                        bad.append((f"queue:pop-not-minimal {tdesc(out, y)}", {"step": n, "popped": out, "smaller_pending": y}))
                        break
                if not dirty and rank(out) is not None:
                    for y in shadow.elements():
                        if specs[y]["time"] == specs[out]["time"] and rank(y) is not None and rank(y) < rank(out):
                            bad.append((f"queue:type-priority {chain[rank(out)]}-popped-before-pending-{chain[rank(y)]}",
                                        {"step": n, "popped": out, "pending": y}))
                            break
                if not dirty and last_pop is not None and key(out) < last_pop:
                    bad.append(("queue:pops-decrease", {"step": n, "popped": out}))
                last_pop = None if dirty else key(out)
        elif o == "peek":
            if sum(shadow.values()) == 0:
                if out is not None:
                    bad.append(("queue:peek-on-empty-not-none", {"step": n, "out": out}))
            elif not isinstance(out, int) or shadow[out] <= 0:
                bad.append(("queue:peek-returned-non-pending", {"step": n, "out": out}))
            else:
                for y in () if dirty else shadow.elements():
                    if key(y) < key(out):
                        bad.append((f"queue:peek-not-minimal {tdesc(out, y)}", {"step": n, "peeked": out, "smaller_pending": y}))
                        break
        elif o == "next_of_type":
            cands = [y for y in shadow.elements() if specs[y]["etype"] == op["t"]]
            if not cands:
                if out is not None:
                    bad.append(("queue:next-of-type-invented-event", {"step": n, "out": out}))
            elif out not in cands:
                bad.append(("queue:next-of-type-wrong-type-or-missing", {"step": n, "out": out}))
            elif any(key(y) < key(out) for y in cands):
                bad.append(("queue:next-of-type-not-minimal", {"step": n, "out": out}))
        elif o == "task_types":
            want = [v for n_, v in all_types() if n_ in
                    ("TASK_CANCEL", "TASK_RELEASE", "TASK_PLACEMENT", "TASK_PREEMPT", "TASK_MIGRATION", "TASK_FINISHED")]
            if sorted(out) != sorted(want):
                bad.append(("queue:task-carrying-types-changed", {"step": n, "out": out}))
        elif o == "len":
            if out != sum(shadow.values()):
                bad.append(("queue:len-wrong", {"step": n, "out": out}))
        elif o == "sorted":
            if not isinstance(out, list) or sorted(out) != sorted(op["es"]):
                bad.append(("queue:sorted-not-a-permutation", {"step": n, "out": out}))
            else:
                ks = [key(i) for i in out]
                if any(ks[i] > ks[i + 1] for i in range(len(ks) - 1)):
                    bad.append(("queue:sorted-not-ordered", {"step": n, "out": out}))
                # stability: within one key class the input order is kept
                for kk in set(ks):
                    if [i for i in out if key(i) == kk] != [i for i in op["es"] if key(i) == kk]:
                        bad.append(("queue:sorted-not-stable", {"step": n, "out": out}))
                        break
        elif o == "lt":
            e, f = op["e"], op["f"]
            if out is not (key(e) < key(f)):
                bad.append((f"queue:lt-disagrees-with-key {tdesc(e, f)}", {"step": n, "out": out}))
        # the queue holds exactly the shadow multiset
        if Counter(qids) != +shadow:
            bad.append(("queue:multiset-changed after=" + o, {"step": n, "queue": qids, "expected": sorted(shadow.elements())}))
            break
    return bad


# --------------------------------------------------------------------------
# queue: generator
# --------------------------------------------------------------------------


def all_types():
    I = impl()
    return [(m.name, m.value) for m in I["EventType"]]


def gen_queue_case(rng, max_ops=60, wellformed=True, misuse=False):
    types = all_types()
    byname = dict(types)
    core = [byname[n] for n in ("TASK_FINISHED", "TASK_PLACEMENT", "SCHEDULER_START") if n in byname]
    palette = set(rng.sample(core, k=min(len(core), rng.randint(1, 3)))) if core else set()
    palette |= {v for _, v in rng.sample(types, k=rng.randint(0, 3))}
    palette = sorted(palette)
    nev = rng.randint(2, 14)
    span = rng.choice([1, 2, 4, 8, 1000])
    names = [f"{n}@{g}" for n in ("t", "t1", "T", "a", "ab", "b") for g in ("g", "g0")]
    names = rng.sample(names, k=rng.randint(1, 5))

    def rand_time():
        usv = rng.randint(-1 if rng.random() < 0.2 else 0, span) * rng.choice([1, 1, 1000, 1000000])
        for u in rng.sample(UNITS, k=3):
            if usv % US_PER[u] == 0:
                return usv, {"t": usv // US_PER[u], "u": u}
        raise AssertionError

    events = []
    for _ in range(nev):
        ty = rng.choice(palette)
        nt = needs_task(ty)
        if wellformed:
            task = rng.choice(names) if nt else None
        else:
            task = rng.choice(names) if (nt or rng.random() < 0.5) else None
        t, rp = rand_time()
        events.append({"time": t, "etype": ty, "task": task, "repr": rp})
    ops = []
    nops = rng.randint(3, max_ops)
    for _ in range(nops):
        # generator-side guess of the pending multiset; steers choices, never judges
        queued = Counter(_steer(events, ops))
        r = rng.random()
        pend = sorted(queued.elements())
        absent = [i for i in range(nev) if queued[i] == 0]
        if r < 0.38:
            if absent and rng.random() < 0.93:
                e = rng.choice(absent)
            else:
                e = rng.randrange(nev)  # the same object queued twice
            ops.append({"op": "add", "e": e})
        elif r < 0.55:
            ops.append({"op": "next"})
        elif r < 0.65:
            if pend and rng.random() < 0.9:
                e = rng.choice(pend)
            else:
                e = rng.randrange(nev)
            ops.append({"op": "remove", "e": e})
        elif r < 0.80:
            e = rng.choice(pend) if pend and rng.random() < 0.85 else rng.randrange(nev)
            t, rp = rand_time()
            if misuse and rng.random() < 0.5:
                ops.append({"op": "retime", "e": e, "t": t, "repr": rp})
            elif not any(p["op"] == "add" and p["e"] == e for p in ops) and rng.random() < 0.5:
                ops.append({"op": "retime", "e": e, "t": t, "repr": rp})  # harmless: never queued so far
            else:
                ops.append({"op": "retime_reheapify", "e": e, "t": t, "repr": rp})
        elif r < 0.85:
            ops.append({"op": "peek"})
        elif r < 0.90:
            ops.append({"op": "next_of_type", "t": rng.choice(palette)})
        elif r < 0.93:
            ops.append({"op": "len"})
        elif r < 0.95:
            ops.append({"op": "reheapify"})
        elif r < 0.98:
            ops.append({"op": "sorted", "es": [rng.randrange(nev) for _ in range(rng.randint(0, 8))]})
        else:
            ops.append({"op": "lt", "e": rng.randrange(nev), "f": rng.randrange(nev)})
    if rng.random() < 0.6:
        ops += [{"op": "next"}] * (sum(_steer(events, ops).values()) + 1)  # drain, plus one pop on empty
    return {
        "suite": "queue",
        "events": events,
        "ops": ops,
        "judge": wellformed,
        "stream": "wellformed" if wellformed and not misuse else ("misuse" if misuse else "illformed"),
    }


def _steer(events, ops):
    """Generator-side guess of which identities are queued (smallest key leaves)."""
    times = [e["time"] for e in events]
    q = Counter()
    for op in ops:
        o = op["op"]
        if o == "add":
            q[op["e"]] += 1
        elif o == "remove" and q[op["e"]] > 0:
            q[op["e"]] -= 1
        elif o in ("retime", "retime_reheapify"):
            times[op["e"]] = op["t"]
        elif o == "next":
            el = sorted(q.elements(), key=lambda i: (times[i], events[i]["etype"], events[i]["task"] or "", i))
            if el:
                q[el[0]] -= 1
    return +q


def gen_queue_cases(rng, tier):
    n = 2000 if tier == "quick" else 50000
    cases = list(CORPUS)
    r = rng.sub("queue")
    for i in range(n):
        m = i % 20
        if m == 18:
            cases.append(gen_queue_case(r, wellformed=False))
        elif m == 19:
            cases.append(gen_queue_case(r, misuse=True))
        else:
            cases.append(gen_queue_case(r, max_ops=60 if i % 3 else 25))
    return cases


def _ev(t, ty, task=None, u="US"):
    return {"time": t * US_PER[u], "etype": ty, "task": task, "repr": {"t": t, "u": u}}


# Hand-written histories that are always run first: the type-priority tie, ties across
# units, the simulator's retime idiom, removal from the middle, duplicates.
CORPUS = [
    {"suite": "queue", "stream": "wellformed", "judge": True,
     "events": [_ev(5, 11), _ev(5, 10, "t@g"), _ev(5, 3, "t@g"), _ev(5000, 3, "a@g"), _ev(5, 3, "b@g", "MS")],
     "ops": [{"op": "add", "e": 0}, {"op": "add", "e": 1}, {"op": "add", "e": 2}, {"op": "peek"},
             {"op": "add", "e": 4}, {"op": "add", "e": 3}, {"op": "retime_reheapify", "e": 3, "t": 5, "repr": {"t": 5, "u": "US"}},
             {"op": "next"}, {"op": "next"}, {"op": "next"}, {"op": "next"}, {"op": "next"}, {"op": "next"}]},
    {"suite": "queue", "stream": "wellformed", "judge": True,
     "events": [_ev(i, 11) for i in (9, 7, 8, 3, 5, 1, 6, 2, 4)],
     "ops": [{"op": "add", "e": i} for i in range(9)] + [{"op": "remove", "e": 5}, {"op": "remove", "e": 5},
             {"op": "retime_reheapify", "e": 0, "t": 0, "repr": {"t": 0, "u": "S"}}, {"op": "next_of_type", "t": 11}]
            + [{"op": "next"}] * 9},
    {"suite": "queue", "stream": "wellformed", "judge": True,
     "events": [_ev(1, 11), _ev(1, 11), _ev(1, 11), _ev(0, 11)],
     "ops": [{"op": "task_types"}, {"op": "add", "e": 0}, {"op": "add", "e": 1}, {"op": "add", "e": 0}, {"op": "add", "e": 2}, {"op": "add", "e": 3},
             {"op": "remove", "e": 0}, {"op": "len"}, {"op": "sorted", "es": [2, 1, 0, 3, 1]}, {"op": "next"}, {"op": "next"},
             {"op": "next"}, {"op": "next"}, {"op": "next"}]},
]


# --------------------------------------------------------------------------
# run / replay
# --------------------------------------------------------------------------


def strip_private(o):
    return {k: v for k, v in o.items() if not k.startswith("_")}


def driver_case(case):
    if case["suite"] == "queue":
        return {"suite": "queue", "events": case["events"], "ops": case["ops"]}
    return case


def shrink_queue(case, sig):
    """Greedy shrink of a failing history: drop ops while the same failure remains."""
    def fails(c):
        try:
            return any(s == sig for s, _ in queue_oracle(c, queue_impl(c)))
        except Exception:  # noqa: BLE001
            return False

    cur = dict(case)
    changed = True
    while changed and len(cur["ops"]) > 1:
        changed = False
        for i in range(len(cur["ops"]) - 1, -1, -1):
            cand = dict(cur, ops=cur["ops"][:i] + cur["ops"][i + 1:])
            if fails(cand):
                cur = cand
                changed = True
    return cur


def judge(case):
    """Run one case on the implementation and the oracle. -> (observations, failures)."""
    if case["suite"] == "time":
        o = time_impl(case)
        return o, time_oracle(case, o)
    steps = queue_impl(case)
    return steps, queue_oracle(case, steps)


def report(chk, case, failures, seen):
    for sig, detail in failures:
        if sig in seen and seen[sig] >= 2:
            seen[sig] += 1
            continue
        seen[sig] = seen.get(sig, 0) + 1
        c = case
        if case["suite"] == "queue" and not chk.matches_known(sig):
            c = shrink_queue(case, sig)
        chk.violation(sig, {"case": c, "detail": detail})


def run(chk: common.Check):
    broken = chk.lean_obligations()
    rng = common.Rng(chk.seed, "c16")
    impl()
    tcases = gen_time_cases(rng, chk.tier)
    qcases = gen_queue_cases(rng, chk.tier)
    cases = tcases + qcases

    # implementation + oracle
    seen = {}
    impl_out = []
    for c in cases:
        o, failures = judge(c)
        impl_out.append(o)
        if failures:
            report(chk, c, failures, seen)

    # model
    disagreements = []
    try:
        to_model = [c for c in cases if c.get("kind") != "ctor"]
        model_out = common.run_driver([driver_case(c) for c in to_model]) if not any("lake-build" in b for b in broken) else None
    except common.LeanFailure as e:
        model_out = None
        broken.append(f"driver: {e.what}")
    if model_out is not None:
        paired = [(c, o) for c, o in zip(cases, impl_out) if c.get("kind") != "ctor"]
        for (c, o), m in zip(paired, model_out):
            if "protocol_error" in m:
                raise RuntimeError(f"driver protocol error {m} on {json.dumps(c)[:300]}")
            if c["suite"] == "time":
                same = strip_private(o) == m
            else:
                same = o == m["steps"]
            if same:
                chk.traces_validated += 1
            else:
                disagreements.append((c, o, m))

    # bookkeeping for the evidence
    for c, o in zip(cases, impl_out):
        if c.get("kind") == "ctor":
            chk.count("time:ctor")
            chk.case({"kind": "ctor"}, True)
        elif c["suite"] == "time":
            inb = in_bound(*(c[x] for x in ("a", "b", "c") if x in c))
            chk.count(f"time:{c['kind']}:{'in-bound' if inb else 'beyond-2^53'}")
            vals = [v for k, v in o.items() if not k.startswith("_")]
            for v in vals:
                if isinstance(v, dict) and "err" in v:
                    chk.count("time:outcome:" + v["err"])
            nontrivial = inb and any(c[x]["t"] != 0 for x in ("a", "b", "c") if x in c) and any(
                not (isinstance(v, dict) and "err" in v) for v in vals
            )
            chk.case({k: c[k] for k in c if k != "suite"}, nontrivial, sample_every=20011)
        else:
            chk.count("queue:stream:" + c["stream"])
            chk.count("queue:ops", len(c["ops"]))
            pops_with_company = 0
            for op, st in zip(c["ops"], o):
                chk.count("queue:op:" + op["op"])
                if isinstance(st["out"], dict):
                    chk.count("queue:outcome:" + st["out"]["err"])
                if op["op"] == "next" and isinstance(st["out"], int) and st["q"]:
                    pops_with_company += 1
            chk.count("queue:pops-with-other-pending", pops_with_company)
            canon = {"events": [[e["time"], e["etype"], e["task"]] for e in c["events"]],
                     "ops": [[op[k] for k in ("op", "e", "f", "t", "es") if k in op] for op in c["ops"]]}
            chk.case(canon, pops_with_company > 0, sample_every=401)

    if broken or disagreements:
        first = None
        if disagreements:
            c, o, m = disagreements[0]
            first = {"case": c, "implementation": o, "model": m}
            broken = broken + [f"correspondence: {len(disagreements)} case(s) differ between /repo and the Lean model (first: suite {c['suite']})"]
            chk.extra["first_disagreement"] = first

        def search():
            # widened generators + prefixes of the disagreeing cases, judged by the
            # oracle on the real code only
            seen2 = dict(seen)
            r = common.Rng(chk.seed, "c16-search")
            extra = []
            for c, _, _ in disagreements[:20]:
                if c["suite"] == "queue":
                    extra += [dict(c, ops=c["ops"][:n], judge=True) for n in range(1, len(c["ops"]) + 1)]
            extra += [gen_queue_case(r, max_ops=80) for _ in range(6000)]
            extra += gen_time_cases(r, "thorough")[:200000]
            for c in extra:
                if c["suite"] == "queue" and c.get("stream") not in (None, "wellformed"):
                    continue
                _, failures = judge(c)
                if failures:
                    report(chk, c, failures, seen2)

        chk.extra["broken_obligations"] = broken
        if any(v.get("found_input") for v in chk.violations):
            # the main pass already holds concrete failing inputs for the real code
            pass
        else:
            common.broken_obligation(chk, broken, search)

    # the event queue as the simulator uses it (re-timings followed by a conditional reheapify, removals, same-instant
    # events): every pop of end-to-end runs of the real simulator must return the earliest queued event
    from harness.suites import _e2e_common as e2e

    e2e.run_suite(chk, "C16", n_quick=250, n_thorough=2500, streams=("regular", "retime", "batch", "retime", "dag"))
    e2e_rule = chk.rule
    chk.exhaustive = False
    chk.rule = (
        "time: every unary/pair case over the value grid x {US,MS,S} (exhaustive for the grid; grid includes 0, +-1, "
        "invalid(), unit-factor multiples, 2^53-1, 2^53, 2^53+1, sys.maxsize), every triple over a smaller grid, "
        "seeded random values up to 2^70 (a fifth forced to equal microseconds in another unit), one constructor "
        "case (non-int times / units must be refused); non-trivial = all operands within |us| < 2^53, not all zero, "
        "at least one non-error observation. queue: hand-written corpus first, then seeded random histories (<= 60 "
        "ops + drain) of add/remove/next/peek/next_of_type/retime(+reheapify)/reheapify/len/sorted/lt over 2-14 real "
        "Event objects (real Task and Placement) with few distinct times (ties across units), types and names; 90% "
        "well-formed, 5% API-misuse (queued event re-timed without reheapify: order not judged until the next "
        "heapify), 5% ill-formed events (compared with the model only); non-trivial = at least one successful pop "
        "while other events were pending; distinct = by canonical case hash. || end-to-end: " + e2e_rule
    )
    chk.assumptions += [
        "time values are judged by the oracle only when every operand is below 2^53 microseconds in magnitude (the property's bound); beyond it the model (exact integer model of double rounding) is still compared with the code",
        "queue histories are judged only when every event is well-formed (task present exactly for the types whose constructor requires one); after an in-place re-timing of a queued event the order is judged again only from the next reheapify()/remove_event(), as the simulator does",
        "CPython's heapq (C accelerator) is what the repository runs; lists stay below the 2500-element threshold irrelevant in 3.12",
    ]


def replay(path) -> int:
    """Re-run one replay file against the repository alone. Exit code 1 = reproduced."""
    data = json.loads(open(path).read())
    if data.get("suite") == "sim":
        from harness.suites import _e2e_common as e2e

        return e2e.replay("C16", path)
    if "case" not in data:
        # a broken obligation without a failing input: re-check the obligations themselves
        # (tables regenerated from the repository, lake build, axiom audit)
        print("replay: this file records a broken obligation without a failing input:", data.get("broken"))
        chk = common.Check("C16", "quick", TECHNIQUE)
        broken = chk.lean_obligations()
        print("obligations now:", broken or "all discharged")
        return 1 if broken else 0
    case = data["case"]
    impl()
    obs, failures = judge(case)
    print("case:", json.dumps(case)[:2000])
    print("implementation:", json.dumps(obs)[:2000])
    if failures:
        for sig, detail in failures:
            print(f"VIOLATION property=C16 reproduced: {sig} {json.dumps(detail)}")
        return 1
    print("not reproduced: the implementation satisfies the oracle on this case")
    return 0
