"""C15 — Clockwork batching: full, same-model, loaded, on-time batches only.

Lean half: `ErdosVerif.Props.C15` (theorems over `Model/Clockwork.lean`).
Tie: multi-invocation histories are run on the real `ClockworkScheduler`
(in-process, from the repository's working tree) and through the Lean driver
(suite "clockwork"); per invocation the decisions (cancellations, batches with
model / strategy / worker / members) and the scheduler's per-model queues and
`num_strategies` counters are compared.
Oracle (independent of the model): batch well-formedness on the real returned
Placements, see harness/impl/clockwork_world.py `oracle_invocation` /
`apply_placements`.
"""
from __future__ import annotations

import json
import sys

from harness import common
from harness.gen import clockwork_gen as gen
from harness.impl import clockwork_world as cw

TECHNIQUE = "Lean 4 proof over hand-written model + differential correspondence"

KEYS = ("err", "cancels", "batches", "state")


def _signature(spec, clause):
    return f"{clause} goal={spec['goal']} run_load={bool(spec.get('run_load'))} apply={bool(spec.get('apply', True))}"


def _diff(obs, reply):
    """First disagreement between the real observations and the Lean reply, or None."""
    if "steps" not in reply:
        return {"invocation": -1, "what": "protocol", "lean": reply}
    if len(reply["steps"]) != len(obs):
        return {"invocation": -1, "what": "length", "lean": len(reply["steps"]), "impl": len(obs)}
    for k, (a, b) in enumerate(zip(obs, reply["steps"])):
        if b.get("fuel_out"):
            return {"invocation": k, "what": "model-out-of-fuel"}
        for key in KEYS:
            if a[key] != b[key]:
                return {"invocation": k, "what": key, "impl": a[key], "lean": b[key]}
    return None


def _specs(chk: common.Check):
    rng = common.Rng(chk.seed, "c15")
    specs = list(gen.corpus())
    if chk.tier == "quick":
        plan = [("normal", 700), ("small", 250), ("large", 50)]
    else:
        plan = [("normal", 16000), ("small", 6000), ("large", 2000)]
    for size, n in plan:
        r = rng.sub(size)
        specs += [gen.gen_spec(r, size) for _ in range(n)]
    if chk.tier == "thorough":
        for extra in range(1, 4):  # derived seeds
            r = common.Rng(chk.seed * 7919 + extra, "c15/derived")
            specs += [gen.gen_spec(r, "normal") for _ in range(2000)]
    return specs


def _report_failures(chk, spec, failures):
    seen = set()
    for k, clause, detail in failures:
        if clause in seen:
            continue
        seen.add(clause)
        chk.violation(
            _signature(spec, clause),
            {"spec": spec, "invocation": k, "clause": clause, "detail": detail},
        )


def run(chk: common.Check):
    broken = chk.lean_obligations()
    specs = _specs(chk)

    cases, all_obs, disagreements = [], [], []
    timeouts = 0
    for spec in specs:
        if timeouts >= 3:
            # schedule() keeps running into the call timeout: the violation is established,
            # do not spend the budget on more of the same
            chk.extra["stopped_after_call_timeouts"] = timeouts
            break
        try:
            lean_case, obs, failures = cw.run_spec(spec)
        except RuntimeError:
            chk.extra["spec_at_tool_failure"] = spec
            import json as _json, os as _os

            _os.makedirs(str(common.REPLAYS), exist_ok=True)
            open(_os.path.join(str(common.REPLAYS), "C15_tool_failure_spec.json"), "w").write(_json.dumps(spec, indent=1))
            raise
        timeouts += sum(1 for o in obs if o["err"] == "ScheduleTimeout")
        cases.append(lean_case)
        all_obs.append(obs)
        chk.traces_validated += len(obs)
        _report_failures(chk, spec, failures)
        # distribution
        chk.count(f"goal:{spec['goal']}")
        chk.count(f"run_load:{bool(spec['run_load'])}")
        chk.count(f"apply:{bool(spec['apply'])}")
        chk.count(f"models:{len(spec['models'])}")
        chk.count(f"workers:{len(spec['workers'])}")
        chk.count(f"invocations:{len(obs)}")
        nb = 0
        for o in obs:
            chk.count(f"err:{o['err']}")
            chk.count("decisions:cancel", len(o["cancels"]))
            chk.count("decisions:batch", len(o["batches"]))
            chk.count("decisions:load_or_evict", o["n_load_evict"])
            for b in o["batches"]:
                chk.count(f"batch_size:{len(b['tids'])}")
            nb += len(o["batches"])
        if any(f[1].startswith("worker-cannot-hold-batch") for f in failures):
            chk.count("oracle:capacity-failures")
        chk.case(lean_case, nontrivial=nb > 0, sample_every=5000)

    try:
        replies = common.run_driver(cases)
    except common.LeanFailure as e:
        replies = None
        broken.append(f"lean-driver: {e.what}")

    if replies is not None:
        for spec, obs, reply in zip(specs, all_obs, replies):
            if any(o["err"] == "ScheduleTimeout" for o in obs):
                continue  # reported by the oracle; nothing to compare
            d = _diff(obs, reply)
            if d is not None:
                disagreements.append((spec, d))
        chk.extra["correspondence_disagreements"] = len(disagreements)

    if broken or disagreements:
        what = list(broken)
        if disagreements:
            spec0, d0 = disagreements[0]
            what.append(
                f"correspondence clockwork: {len(disagreements)} disagreeing histories; first at invocation "
                f"{d0['invocation']} on {d0['what']}"
            )
            chk.extra["first_disagreement"] = {"spec": spec0, "diff": d0}

        def search():
            # shrunk variants of the disagreeing histories, then a widened generator run,
            # through the oracle on the real code alone
            nto = 0
            for spec, _ in disagreements[:20]:
                for v in gen.shrink_variants(spec):
                    if nto >= 3:
                        return
                    try:
                        _, ob, fl = cw.run_spec(v)
                    except Exception:  # a shrunk variant may be malformed
                        continue
                    nto += sum(1 for o in ob if o["err"] == "ScheduleTimeout")
                    _report_failures(chk, v, fl)
            r = common.Rng(chk.seed, "c15/widened")
            for i in range(3000):
                if nto >= 3:
                    return
                v = gen.gen_spec(r, ("small", "normal", "large")[i % 3])
                _, ob, fl = cw.run_spec(v)
                nto += sum(1 for o in ob if o["err"] == "ScheduleTimeout")
                _report_failures(chk, v, fl)

        before = len(chk.violations)
        common.broken_obligation(chk, what, search)
        if disagreements and len(chk.violations) > before and not chk.violations[-1]["found_input"]:
            # attach the first disagreeing history to the replay of the broken obligation
            import pathlib

            p = pathlib.Path(common.VERIF) / chk.violations[-1]["replay"]
            data = json.loads(p.read_text())
            data["spec"] = disagreements[0][0]
            data["diff"] = disagreements[0][1]
            p.write_text(json.dumps(data, indent=1, default=str))

    chk.rule = (
        "histories = hand-written corpus + random specs from harness/gen/clockwork_gen.py "
        "(Rng(seed,'c15') sub-streams small/normal/large; thorough adds 3 derived seeds): 1-3 models x 1-3 "
        "batch-size strategies, 0-3 workers in 1-2 pools, 2-30 requests released over time, 2-8 invocations, "
        "loading state changed between invocations, both goals, optional start()/run_load, 12% re-offer mode. "
        "A case is the Lean case (configuration + per-invocation tape); non-trivial = at least one batch was "
        "placed; distinct = distinct canonical case hash."
    )
    chk.assumptions += [
        "every work profile has at least one execution strategy, batch_size >= 1, runtime >= 1 us, requirement "
        "vectors name resources by name with id 'any' (batch_size 0 makes run_inference loop forever; an empty "
        "strategy list makes Workload.get_schedulable_tasks raise before the policy runs)",
        "task deadlines are not changed after release (Task.update_deadline would break queue order)",
        "load / evict decisions (run_load, float priorities) are a tape input: the model takes the per-worker "
        "loading state and free resources at the start of run_inference as given (captured by a class-level "
        "wrapper); an exception raised by the load phase is part of the tape",
        "placed_once is checked only in histories where decisions are applied (a placed request is then never "
        "offered again); re-offer histories check every other clause",
        "Python dict keyed by ExecutionStrategy: distinct strategy objects never collide on their uuid hash",
    ]


def replay(path) -> int:
    data = json.loads(open(path).read())
    spec = data.get("spec")
    if spec is None:
        print(f"[C15] replay {path}: no input recorded ({data.get('broken')})")
        return 1
    if data.get("found_input", True):
        _, obs, failures = cw.run_spec(spec)
        want = data.get("clause")
        hits = [f for f in failures if want is None or f[1] == want]
        for k, clause, detail in hits[:5]:
            print(f"[C15] replay: invocation {k}: {clause}: {detail}")
        if hits:
            print(f"[C15] replay {path}: property fails on the recorded history (reproduced)")
            return 1
        print(f"[C15] replay {path}: recorded failure does not reproduce on {common.REPO}")
        return 0
    # broken obligation with a disagreeing history: re-run the correspondence on it
    case, obs, failures = cw.run_spec(spec)
    if failures:
        for k, clause, detail in failures[:5]:
            print(f"[C15] replay: invocation {k}: {clause}: {detail}")
        return 1
    try:
        reply = common.run_driver([case])[0]
    except common.LeanFailure as e:
        print(f"[C15] replay: Lean driver unavailable ({e.what}); obligation was: {data.get('broken')}")
        return 1
    d = _diff(obs, reply)
    if d is not None:
        print(f"[C15] replay {path}: model and implementation still disagree: {json.dumps(d)[:600]}")
        return 1
    print(f"[C15] replay {path}: model and implementation agree on the recorded history")
    return 0


if __name__ == "__main__":
    sys.exit(replay(sys.argv[1]))
