"""C06 — task-graph suite (direct-call histories) — see _taskgraph_common.py."""
from harness import common
from harness.suites import _taskgraph_common as tg

TECHNIQUE = "Lean 4 theorems over an executable Task/TaskGraph model; model tied to /repo by differential call-history correspondence"


def run(chk: common.Check):
    tg.run_suite(chk, "C06")


def replay(path) -> int:
    return tg.replay("C06", path)
