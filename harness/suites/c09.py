"""C09 — runs are reproducible from the random seed.

Runtime half (the main part of this check).  A generated world (cluster +
workload description + flags + policy + --random_seed) is written to a scratch
directory outside /repo and /verif and executed through the REAL command line

    python main.py --scheduler=EDF|FIFO|LSF --scheduler_runtime=0 --execution_mode=json|yaml
        --workload_profile_path=... --worker_profile_path=... --random_seed=N --csv=run.csv ...

in two or more FRESH PROCESSES whose environments differ only in PYTHONHASHSEED
(chosen so that the iteration order of a `set` of the generator's resource names
really differs between them; the thorough tier adds a process that repeats the
first environment exactly and one with a random hash seed).  The CSV traces are
compared byte for byte after masking the single wall-clock field (last column of
SCHEDULER_FINISHED = `Placements.true_runtime`).  Every process runs in its own
working directory with the same relative --csv/--log names and the same absolute
description paths, so that even the `input_flag` rows must be identical.

Oracle = that byte diff.  A difference is classified (row kind, column, whether
only the ORDER of the WORKER_POOL_UTILIZATION rows of one log call differs,
whether release times of poisson/gamma jobs differ, whether ids differ) into a
stable signature; the replay holds the world, the seeds and the first differing
row, and `./check C09 --replay f` re-runs the processes against /repo alone.

Model half.  `Model/SimOrder.lean` makes the set iteration order of
`__log_utilization` an explicit parameter; `Props/C09.lean` proves what does
and does not depend on it.  The simulator model itself is tied to /repo by the
shared end-to-end correspondence (recorded in-process runs replayed by the Lean
model), which is run here as well.
"""
from __future__ import annotations

import copy
import json
import os
import shutil
import subprocess
import sys
import tempfile
import time
from concurrent.futures import ThreadPoolExecutor
from pathlib import Path

from harness import common
from harness.gen import sim_gen

TECHNIQUE = (
    "Lean 4 theorems over an executable model with the hidden inputs made explicit (set iteration order, id labels, tapes) "
    "+ repeated fresh-process runs of the real command line under different PYTHONHASHSEED, byte diff of the CSV traces"
)

MAXSIZE = 9223372036854775807
WANTS = ["poisson", "gamma", "conditional", "deadline_variance", "runtime_variance", "plain"]
SIZES = {"quick": {"worlds": 12, "e2e": 40, "search": 6}, "thorough": {"worlds": 60, "e2e": 400, "search": 24}}
PROC_TIMEOUT = 120
RES_NAMES = list(sim_gen.RES)

UTIL = "WORKER_POOL_UTILIZATION"
MASK = "<true_runtime>"

# column names per row kind (for the classification of a difference)
SCHEMA = {
    "input_flag": ["kind", "flag", "value"],
    "WORKER_POOL": ["time", "kind", "pool_name", "pool_id"],
    UTIL: ["time", "kind", "pool_id", "resource_name", "allocated", "available"],
    "SIMULATOR_START": ["time", "kind"],
    "SIMULATOR_END": ["time", "kind", "finished_tasks", "cancelled_tasks", "missed_task_deadlines", "finished_graphs", "cancelled_graphs", "missed_graph_deadlines"],
    "UPDATE_WORKLOAD": ["time", "kind", "releasable_tasks", "total_tasks"],
    "SCHEDULER_START": ["time", "kind", "schedulable_tasks", "placed_tasks"],
    "SCHEDULER_FINISHED": ["time", "kind", "runtime", "placed", "unplaced", "true_runtime"],
    "TASK_GRAPH_RELEASE/7": ["time", "kind", "release_time", "deadline", "graph", "tasks", "critical_path"],
    "TASK_GRAPH_RELEASE/6": ["time", "kind", "graph", "deadline", "tasks", "critical_path"],
    "TASK_RELEASE": ["time", "kind", "task", "timestamp", "intended_release_time", "release_time", "deadline", "task_id", "graph", "slowest_runtime"],
    "TASK_SCHEDULED": ["time", "kind", "task", "graph", "timestamp", "task_id", "deadline", "placement_time", "pool_id", "runtime"],
    "TASK_PLACEMENT": ["time", "kind", "task", "graph", "timestamp", "task_id", "pool_id", "runtime"],
    "TASK_FINISHED": ["time", "kind", "task", "timestamp", "graph", "completion_time", "deadline", "task_id"],
    "TASK_GRAPH_FINISHED": ["time", "kind", "graph", "deadline", "tardiness"],
    "MISSED_DEADLINE": ["time", "kind", "task", "timestamp", "deadline", "task_id"],
    "MISSED_TASK_GRAPH_DEADLINE": ["time", "kind", "graph", "deadline"],
    "TASK_CANCEL": ["time", "kind", "task", "timestamp", "task_id", "graph", "slowest_runtime"],
    "TASK_SKIP": ["time", "kind", "task", "graph", "timestamp", "task_id"],
    "TASK_NOT_READY": ["time", "kind", "task", "timestamp", "task_id", "pool_id"],
    "WORKER_NOT_READY": ["time", "kind", "task", "timestamp", "task_id", "pool_id"],
    "TASK_PREEMPT": ["time", "kind", "task", "timestamp", "task_id"],
}
ID_COLUMNS = {"task_id", "pool_id"}
TIME_COLUMNS = {"time", "release_time", "intended_release_time", "deadline", "completion_time", "placement_time", "tardiness"}


# --------------------------------------------------------------------------
# worlds
# --------------------------------------------------------------------------


def has_conditional(world):
    return any(n.get("conditional") for g in world["workload"]["graphs"] for n in g["graph"])


def multi_type_pool(world):
    return any(len({r["name"].split(":")[0] for w in p["workers"] for r in w["resources"]}) >= 2 for p in world["workers"])


def features(world):
    f = set()
    for g in world["workload"]["graphs"]:
        f.add("release:" + g["release_policy"])
        dv = g.get("deadline_variance")
        if dv is None:
            if world["cli"].get("max_deadline_variance", 20) > 0:
                f.add("deadline_variance:flags")
        elif dv[0] != dv[1] and dv[1] > 0:
            f.add("deadline_variance:job")
    if has_conditional(world):
        f.add("conditional")
    if world["flags"]["runtime_variance"] > 0:
        f.add("runtime_variance")
    if multi_type_pool(world):
        f.add("pool-with-2-resource-types")
    for k in ("resolve_conditionals_at_submission", "decompose_deadlines", "enforce_deadlines"):
        if world["cli"].get(k):
            f.add(k)
    return sorted(f)


def uses_randomness(world):
    fs = features(world)
    return any(x in fs for x in ("release:poisson", "release:gamma", "deadline_variance:job", "deadline_variance:flags", "runtime_variance", "conditional"))


def to_poisson(rng, g):
    for k in ("period", "concurrency", "coefficient"):
        g.pop(k, None)
    g.update(release_policy="poisson", rate=rng.choice([0.02, 0.05, 0.1, 0.25]), invocations=rng.choice([2, 3, 4, 6]))
    g.setdefault("start", 0)


def to_gamma(rng, g):
    for k in ("period", "concurrency"):
        g.pop(k, None)
    g.update(release_policy="gamma", rate=rng.choice([0.02, 0.05, 0.1, 0.25]), coefficient=rng.choice([0.5, 1.0, 2.0, 4.0]), invocations=rng.choice([2, 3, 4, 6]))
    g.setdefault("start", 0)


def gen_world(rng, want="plain"):
    """A sim_gen world restricted to what the command line can express (bundled greedy
    policies, scheduler runtime 0) plus the sources of randomness C09 quantifies over."""
    for _ in range(300):
        w = sim_gen.gen_world(rng, "regular")
        if want == "conditional" and not has_conditional(w):
            continue
        if not multi_type_pool(w) and rng.random() < 0.8:
            continue
        break
    pol = rng.choice(["EDF", "FIFO", "LSF"])
    w["policy"] = {"name": pol}
    w["flags"]["scheduler_delay"] = 0
    # EDF / FIFO refuse --release_taskgraphs ("does not support taskgraphs") and LSF ignores it
    w["flags"]["release_taskgraphs"] = False
    cli = {}
    if pol == "EDF" and rng.random() < 0.3:
        cli["enforce_deadlines"] = True
    if rng.random() < 0.15:
        cli["resolve_conditionals_at_submission"] = True
    # --use_branch_predicated_deadlines is not generated: every run dies in the loader with
    # AttributeError: 'Job' object has no attribute 'runtime' (dead flag, see docs/C09.md)
    if rng.random() < 0.1:
        cli["decompose_deadlines"] = True
    if rng.random() < 0.12:
        cli["log_level"] = "debug"
    # replicated job graphs (each replica draws its own arrivals): chosen from a sub-stream so that the worlds of the
    # main stream stay what they were
    if common.Rng(0, "c09-replication/" + json.dumps(w["workload"], sort_keys=True)).random() < (0.5 if want in ("poisson", "gamma") else 0.15):
        cli["replication_factor"] = 2
    graphs = w["workload"]["graphs"]
    if want == "poisson":
        to_poisson(rng, rng.choice(graphs))
    elif want == "gamma":
        to_gamma(rng, rng.choice(graphs))
    for g in graphs:
        if g["release_policy"] in ("poisson", "gamma"):
            continue
        r = rng.random()
        if r < 0.12:
            to_poisson(rng, g)
        elif r < 0.24:
            to_gamma(rng, g)
    if want == "deadline_variance":
        for g in graphs:
            g["deadline_variance"] = rng.choice([[0, 100], [50, 200], [10, 500], [0, 25]])
    if want == "deadline_variance" or rng.random() < 0.15:
        if rng.random() < 0.4:
            rng.choice(graphs).pop("deadline_variance", None)
            lo = rng.choice([0, 0, 10, 50])
            cli["min_deadline_variance"] = lo
            cli["max_deadline_variance"] = lo + rng.choice([0, 20, 100, 300])
    if want == "runtime_variance":
        w["flags"]["runtime_variance"] = rng.choice([10, 30, 100])
    if any(g["release_policy"] == "periodic" for g in graphs) and w["flags"]["loop_timeout"] > 400:
        w["flags"]["loop_timeout"] = 400
    # flags that must not matter for the trace: every process runs in a fresh directory, so appending = writing
    if rng.random() < 0.35:
        cli["log_file_mode"] = "append"
    w["cli"] = cli
    w["format"] = rng.choice(["json", "json", "yaml"])
    w["random_seed"] = rng.choice([0, 1, 42, rng.randrange(2**31), rng.randrange(2**31), rng.randrange(2**62)])
    w["want"] = want
    w.pop("max_steps", None)
    return w


def job_policy(world, graph_name):
    job = graph_name.split("@")[0]
    for g in world["workload"]["graphs"]:
        if g["name"] == job:
            return g["release_policy"]
    return "?"


def summary(world):
    return {
        "policy": world["policy"]["name"],
        "flags": {k: v for k, v in world["flags"].items()},
        "cli": world["cli"],
        "format": world["format"],
        "random_seed": world["random_seed"],
        "jobs": [(g["name"], g["release_policy"], len(g["graph"]), g.get("invocations"), g.get("deadline_variance")) for g in world["workload"]["graphs"]],
        "pools": [[sorted({r["name"].split(":")[0] for r in w["resources"]}) for w in p["workers"]] for p in world["workers"]],
    }


# --------------------------------------------------------------------------
# running the real command line
# --------------------------------------------------------------------------


def write_world(world, d: Path):
    d.mkdir(parents=True, exist_ok=True)
    ext = world["format"]
    wl, wk = d / f"workload.{ext}", d / f"workers.{ext}"
    if ext == "json":
        wl.write_text(json.dumps(world["workload"], indent=1))
        wk.write_text(json.dumps(world["workers"], indent=1))
    else:
        import yaml

        wl.write_text(yaml.safe_dump(world["workload"], sort_keys=False))
        wk.write_text(yaml.safe_dump(world["workers"], sort_keys=False))
    return wl, wk


def bool_flag(name, v):
    return f"--{name}" if v else f"--no{name}"


def argv(world, wl, wk):
    f, cli = world["flags"], world["cli"]
    a = [
        sys.executable,
        str(common.REPO / "main.py"),
        f"--scheduler={world['policy']['name']}",
        "--scheduler_runtime=0",
        f"--execution_mode={world['format']}",
        f"--workload_profile_path={wl}",
        f"--worker_profile_path={wk}",
        f"--random_seed={world['random_seed']}",
        "--csv=run.csv",
        "--log=run.log",
        f"--log_level={cli.get('log_level', 'critical')}",
        f"--loop_timeout={f['loop_timeout']}",
        f"--scheduler_frequency={f['scheduler_frequency']}",
        f"--scheduler_delay={f['scheduler_delay']}",
        f"--runtime_variance={f['runtime_variance']}",
        f"--workload_update_interval={f['workload_update_interval']}",
        bool_flag("drop_skipped_tasks", f["drop_skipped_tasks"]),
        bool_flag("scheduler_run_at_worker_free", f["scheduler_run_at_worker_free"]),
        bool_flag("release_taskgraphs", f["release_taskgraphs"]),
    ]
    for k in ("enforce_deadlines", "resolve_conditionals_at_submission", "decompose_deadlines"):
        if cli.get(k):
            a.append(f"--{k}")
    for k in ("min_deadline_variance", "max_deadline_variance", "log_file_mode", "replication_factor"):
        if k in cli:
            a.append(f"--{k}={cli[k]}")
    return a


def run_process(args, cwd: Path, hashseed):
    """One fresh interpreter. Returns the observation (never raises on a failing run)."""
    cwd.mkdir(parents=True, exist_ok=True)
    env = {k: v for k, v in os.environ.items() if k not in ("PYTHONHASHSEED", "ERDOS_SIM_VERIF")}
    env["PYTHONHASHSEED"] = str(hashseed)
    env["PYTHONDONTWRITEBYTECODE"] = "1"
    t0 = time.time()
    try:
        p = subprocess.run(args, cwd=cwd, env=env, stdout=subprocess.PIPE, stderr=subprocess.PIPE, timeout=PROC_TIMEOUT)
    except subprocess.TimeoutExpired:
        return {"timeout": True, "hashseed": hashseed, "wall": time.time() - t0}
    csv = cwd / "run.csv"
    data = csv.read_bytes() if csv.exists() else b""
    err = p.stderr.decode("utf-8", "replace").strip().splitlines()
    return {
        "timeout": False,
        "hashseed": hashseed,
        "rc": p.returncode,
        "csv": data,
        "stdout": p.stdout.decode("utf-8", "replace")[-400:],
        "exc": (err[-1][:300] if err and p.returncode != 0 else None),
        "wall": time.time() - t0,
    }


def probe_hashseeds():
    """Hash seeds (0 and the first other one) for which a fresh interpreter iterates a
    `set` of the generator's resource names in different orders.  Probes the interpreter
    only, never the code under test."""
    code = "import sys; print(','.join(set(sys.argv[1:])))"
    orders = {}
    for h in range(0, 24):
        env = dict(os.environ, PYTHONHASHSEED=str(h), PYTHONDONTWRITEBYTECODE="1")
        out = subprocess.run([sys.executable, "-c", code, *RES_NAMES], env=env, stdout=subprocess.PIPE, text=True, timeout=60, check=True).stdout.strip()
        orders[h] = out
        if out != orders[0]:
            return 0, h, orders
    raise RuntimeError(f"no PYTHONHASHSEED in 0..23 changes the iteration order of set({RES_NAMES}): {orders}")


def probe_name_order_seed(exclude=()):
    """A hash seed under which a fresh interpreter iterates two-element sets of the generator's task / job / profile
    names in the opposite order than under seed 0 for as many pairs as possible (any code path that iterates a set
    of such names then produces a different order in the two processes). Probes the interpreter only."""
    names = [f"T{i}" for i in range(8)] + [f"J{i}" for i in range(3)] + [f"J0_P{i}" for i in range(4)]
    pairs = [(a, b) for i, a in enumerate(names) for b in names[i + 1:] if a[0] == b[0]]
    code = ("import sys; ns=sys.argv[1:]; "
            "print(''.join('1' if list({ns[i], ns[i+1]})[0]==ns[i] else '0' for i in range(0,len(ns),2)))")
    flat = [x for p in pairs for x in p]
    res = {}
    for h in range(0, 24):
        env = dict(os.environ, PYTHONHASHSEED=str(h), PYTHONDONTWRITEBYTECODE="1")
        res[h] = subprocess.run([sys.executable, "-c", code, *flat], env=env, stdout=subprocess.PIPE, text=True, timeout=60, check=True).stdout.strip()
    best = max((h for h in res if h != 0 and h not in exclude), key=lambda h: sum(a != b for a, b in zip(res[0], res[h])))
    return best, sum(a != b for a, b in zip(res[0], res[best])) / max(1, len(pairs))


def run_world(world, base: Path, hashseeds, pool: ThreadPoolExecutor):
    wl, wk = write_world(world, base)
    args = argv(world, wl, wk)
    futs = [pool.submit(run_process, args, base / f"run{k}", h) for k, h in enumerate(hashseeds)]
    return args, futs


# --------------------------------------------------------------------------
# the oracle: masked byte diff + classification
# --------------------------------------------------------------------------


def mask_lines(data: bytes):
    """The only masked field: last column of SCHEDULER_FINISHED rows (measured wall-clock
    duration of the policy's schedule() call)."""
    out = []
    for line in data.decode("utf-8", "replace").split("\n"):
        parts = line.split(",")
        if len(parts) >= 6 and parts[1] == "SCHEDULER_FINISHED":
            parts[-1] = MASK
            line = ",".join(parts)
        out.append(line)
    return out


def kind_of(line):
    parts = line.split(",")
    if parts[0] == "input_flag":
        return "input_flag"
    return parts[1] if len(parts) > 1 else "?"


def columns(line):
    parts = line.split(",")
    k = kind_of(line)
    if k == "TASK_GRAPH_RELEASE":
        k = f"TASK_GRAPH_RELEASE/{len(parts)}"
    names = SCHEMA.get(k, [])
    return parts, [names[i] if i < len(names) else f"col{i}" for i in range(len(parts))]


def util_blocks(lines):
    """[(start, end)] of maximal runs of utilisation rows that belong to one log call and
    one pool (same time, same pool id, no repeated resource name)."""
    out, i = [], 0
    while i < len(lines):
        p = lines[i].split(",")
        if len(p) > 3 and p[1] == UTIL:
            j, names = i, set()
            while j < len(lines):
                q = lines[j].split(",")
                if not (len(q) > 3 and q[1] == UTIL and q[0] == p[0] and q[2] == p[2] and q[3] not in names):
                    break
                names.add(q[3])
                j += 1
            out.append((i, j))
            i = j
        else:
            i += 1
    return out


def sort_blocks(lines):
    res = list(lines)
    for i, j in util_blocks(lines):
        res[i:j] = sorted(lines[i:j])
    return res


def first_diff(a, b):
    for i in range(min(len(a), len(b))):
        if a[i] != b[i]:
            return i
    return None if len(a) == len(b) else min(len(a), len(b))


def row_time(line):
    try:
        return int(line.split(",")[0])
    except ValueError:
        return -1


def graph_releases(lines):
    rel = {}
    for line in lines:
        p = line.split(",")
        if len(p) > 1 and p[1] == "TASK_GRAPH_RELEASE":
            if len(p) == 7:
                rel[p[4]] = p[2]
            elif len(p) == 6:
                rel[p[2]] = p[0]
    return rel


def classify(world, ra, rb):
    """Compare two process observations.  Returns a list of (signature, detail)."""
    out = []
    same_env = ra["hashseed"] == rb["hashseed"]
    tag = "same PYTHONHASHSEED" if same_env else "PYTHONHASHSEED differs"
    exits = {"a": {"rc": ra["rc"], "exc": ra["exc"]}, "b": {"rc": rb["rc"], "exc": rb["exc"]}}
    exit_differs = ra["rc"] != rb["rc"] or (ra["exc"] or "").split(":")[0] != (rb["exc"] or "").split(":")[0]
    a, b = mask_lines(ra["csv"]), mask_lines(rb["csv"])
    if a == b:
        if exit_differs:
            out.append((f"C09 exit-status-differs with identical traces ({tag})", exits))
        return out
    na, nb = sort_blocks(a), sort_blocks(b)
    k = first_diff(na, nb)
    # ---- part 1: order-only differences inside the common prefix
    prefix = len(a) if k is None else k
    if k is not None:
        for i, j in util_blocks(a):
            if i <= k < j:
                prefix = i
    if a[:prefix] != b[:prefix]:
        i = first_diff(a[:prefix], b[:prefix])
        blk = next(((s, e) for s, e in util_blocks(a) if s <= i < e), None)
        if blk is None:
            raise AssertionError("order difference outside a utilisation block after block sorting")
        s, e = blk
        names = len({x.split(",")[3] for x in a[s:e]})
        nblocks = sum(1 for s2, e2 in util_blocks(a[:prefix]) if a[s2:e2] != b[s2:e2])
        out.append(
            (
                f"C09 set-order: WORKER_POOL_UTILIZATION rows of one log call permuted between processes ({tag})",
                {"first_block_row": s, "a": a[s:e], "b": b[s:e], "resource_types_in_pool": names, "permuted_blocks": nblocks,
                 "hashseeds": [ra["hashseed"], rb["hashseed"]], "only_order_differs": k is None},
            )
        )
    if k is None:
        if exit_differs:
            out.append((f"C09 exit-status-differs with identical traces ({tag})", exits))
        return out
    # ---- part 2: a real difference at row k of the block-sorted traces
    la = na[k] if k < len(na) else None
    lb = nb[k] if k < len(nb) else None
    ka = kind_of(la) if la is not None else "<end-of-trace>"
    kb = kind_of(lb) if lb is not None else "<end-of-trace>"
    fields = []
    if la is not None and lb is not None and ka == kb:
        pa, ca = columns(la)
        pb, _ = columns(lb)
        fields = [ca[i] if i < len(ca) else f"col{i}" for i in range(max(len(pa), len(pb))) if i >= len(pa) or i >= len(pb) or pa[i] != pb[i]]
    rel_a, rel_b = graph_releases(na), graph_releases(nb)
    differing_graphs = sorted(g for g in set(rel_a) | set(rel_b) if rel_a.get(g) != rel_b.get(g))
    detail = {
        "first_differing_row": k,
        "a": la,
        "b": lb,
        "context_before": na[max(0, k - 3) : k],
        "hashseeds": [ra["hashseed"], rb["hashseed"]],
        "rows": [len(na), len(nb)],
        "graphs_with_different_release": [(g, rel_a.get(g), rel_b.get(g), job_policy(world, g)) for g in differing_graphs[:8]],
        # a different exit status after the traces have diverged is a consequence, not a separate finding
        "exit": exits,
    }
    # arrival draws: the two traces agree on every row before the earliest arrival that differs
    # (t*), and every graph arriving at t* in only one of the runs belongs to a poisson / gamma job
    if differing_graphs:

        def tmin(g):
            return min(int(x) for x in (rel_a.get(g), rel_b.get(g)) if x is not None)

        t_star = min(tmin(g) for g in differing_graphs)
        first = [g for g in differing_graphs if tmin(g) == t_star]
        pols = {job_policy(world, g) for g in first}
        detail["earliest_differing_arrival"] = {"time": t_star, "graphs": first, "policies": sorted(pols)}
        if pols <= {"poisson", "gamma"} and all(row_time(x) >= t_star for x in (la, lb) if x is not None):
            out.append((f"C09 arrival-times-differ release_policy={'+'.join(sorted(pols))}: TASK_GRAPH_RELEASE times are not a function of --random_seed", detail))
            return out
    idf = [f for f in fields if f in ID_COLUMNS]
    tf = [f for f in fields if f in TIME_COLUMNS]
    if fields and len(idf) == len(fields):
        what = "ids-differ"
    elif fields and len(tf) == len(fields):
        what = "times-differ"
    elif fields:
        what = "fields-differ"
    else:
        what = "row-sequence-differs"
    sig = f"C09 trace-differs {what} row={ka}" + (f"/{kb}" if kb != ka else "") + (f" fields={'+'.join(fields)}" if fields else "") + f" ({tag})"
    out.append((sig, detail))
    return out


def compare_world(world, results):
    """All processes against the first one. -> (list of (signature, detail, pair), agree)"""
    found = []
    ref = results[0]
    for r in results[1:]:
        for sig, detail in classify(world, ref, r):
            found.append((sig, detail, [ref["hashseed"], r["hashseed"]]))
    return found


# --------------------------------------------------------------------------
# shrinking (unknown differences only): drop job graphs / invocations / flags
# --------------------------------------------------------------------------


def shrink(world, sig, hashseeds, scratch: Path, budget=10):
    def fails(cand, n=[0]):
        n[0] += 1
        d = scratch / f"shrink{n[0]}"
        with ThreadPoolExecutor(max_workers=2) as pool:
            _, futs = run_world(cand, d, hashseeds, pool)
            res = [f.result() for f in futs]
        shutil.rmtree(d, ignore_errors=True)
        if any(r["timeout"] for r in res):
            return False
        return any(s == sig for s, _, _ in compare_world(cand, res))

    w = copy.deepcopy(world)
    used = 0
    changed = True
    while changed and used < budget:
        changed = False
        gs = w["workload"]["graphs"]
        cands = []
        for i in range(len(gs)):
            if len(gs) > 1:
                c = copy.deepcopy(w)
                del c["workload"]["graphs"][i]
                cands.append(c)
        for i, g in enumerate(gs):
            if g.get("invocations", 1) > 2:
                c = copy.deepcopy(w)
                c["workload"]["graphs"][i]["invocations"] = 2
                cands.append(c)
        if w["cli"]:
            c = copy.deepcopy(w)
            c["cli"] = {}
            cands.append(c)
        for c in cands:
            if used >= budget:
                break
            used += 1
            try:
                if fails(c):
                    w, changed = c, True
                    break
            except Exception:
                continue
    return w


# --------------------------------------------------------------------------
# suite
# --------------------------------------------------------------------------


def nprocs():
    try:
        return max(1, min(8, int(os.environ.get("VERIF_C09_PROCS", "8"))))
    except ValueError:
        return 8


def make_replay(world, args, hashseeds, pair, detail, scratch):
    return {
        "suite": "c09-cli",
        "world": world,
        "random_seed": world["random_seed"],
        "hashseeds": list(hashseeds),
        "differing_pair": pair,
        "argv": [a.replace(str(scratch), "<scratch>") for a in args],
        "detail": detail,
        "how": "fresh `python main.py` processes with these PYTHONHASHSEED values; CSV traces compared after masking SCHEDULER_FINISHED.true_runtime",
    }


def run_cli_worlds(chk, worlds, hashseeds, scratch: Path):
    """Run every world in len(hashseeds) fresh processes and report every difference."""
    t0 = time.time()
    pending = []
    with ThreadPoolExecutor(max_workers=nprocs()) as pool:
        for i, w in enumerate(worlds):
            args, futs = run_world(w, scratch / f"w{i}", hashseeds, pool)
            pending.append((w, args, futs))
        done = [(w, args, [f.result() for f in futs]) for w, args, futs in pending]
    chk.extra["cli_processes"] = chk.extra.get("cli_processes", 0) + sum(len(r) for _, _, r in done)
    chk.extra["cli_wall_s"] = round(chk.extra.get("cli_wall_s", 0) + time.time() - t0, 1)
    timeouts = 0
    agree = 0
    for i, (w, args, results) in enumerate(done):
        for f in features(w):
            chk.count(f"feature:{f}")
        chk.count(f"policy:{w['policy']['name']}")
        chk.count(f"format:{w['format']}")
        if any(r["timeout"] for r in results):
            timeouts += 1
            chk.count("outcome:timeout(not compared)")
            continue
        ref = results[0]
        lines = mask_lines(ref["csv"])
        kinds = {}
        for line in lines:
            if line:
                kinds[kind_of(line)] = kinds.get(kind_of(line), 0) + 1
        for k, n in kinds.items():
            if k != "input_flag":
                chk.count(f"row:{k}", n)
        outcome = "ok" if ref["rc"] == 0 else "exit:" + ((ref["exc"] or "?").split(":")[0])
        chk.count(f"outcome:{outcome}")
        data_rows = sum(n for k, n in kinds.items() if k != "input_flag")
        nontrivial = ref["rc"] == 0 and kinds.get("SIMULATOR_END", 0) == 1 and kinds.get("TASK_FINISHED", 0) >= 1 and uses_randomness(w)
        s = summary(w)
        s.update(rows=data_rows, outcome=outcome, processes=len(results), hashseeds=list(hashseeds))
        chk.case(s, nontrivial)
        found = compare_world(w, results)
        if not found:
            agree += 1
        if all(chk.matches_known(sig) is not None for sig, _, _ in found):
            chk.extra["worlds_identical_up_to_known_findings"] = chk.extra.get("worlds_identical_up_to_known_findings", 0) + 1
        seen = set()
        for sig, detail, pair in found:
            if sig in seen:
                continue
            seen.add(sig)
            ww = w
            if chk.matches_known(sig) is None:
                try:
                    ww = shrink(w, sig, pair, scratch / f"w{i}")
                except Exception:
                    ww = w
            chk.violation(sig, make_replay(ww, args, hashseeds, pair, detail, scratch))
    if timeouts * 4 > len(done):
        raise RuntimeError(f"{timeouts} of {len(done)} worlds hit the {PROC_TIMEOUT}s process timeout: machine overloaded or the simulator livelocks")
    return agree, len(done) - timeouts


def run(chk: common.Check):
    from harness.suites import _e2e_common as e2e

    size = SIZES[chk.tier]
    broken = chk.lean_obligations()

    # ---- model tie: the shared end-to-end correspondence (simulator model vs real Simulator)
    runs = e2e.run_worlds(chk, "C09", size["e2e"], streams=("regular",), seed_tag="c09-e2e")
    dis, derr = e2e.compare(runs)
    if derr:
        broken.append(derr)
        dis = []
    chk.extra["model_correspondence"] = {"runs": len(runs), "disagreements": len(dis), "rows_compared": sum(len(r["obs"]["rows"]) for r in runs)}
    if dis:
        i, d = dis[0]
        broken.append(f"correspondence sim: {len(dis)} run(s) differ; first: {d}")
        chk.extra["first_disagreement"] = {"world": runs[i]["world"], "seed": runs[i]["seed"], "diff": d}
    # the model's view of D11: in the raw in-process trace every utilisation block is a
    # duplicate-free set of names (so "the rows of one call as a multiset" is well defined)
    for r in runs:
        raw = r["obs"]["raw_rows"]
        for s, e in util_blocks(raw):
            names = [x.split(",")[3] for x in raw[s:e]]
            if len(set(names)) != len(names):
                broken.append("utilisation block with a repeated resource name")
    chk.count("e2e-model-runs", len(runs))

    # ---- runtime half: fresh processes
    h0, h1, orders = probe_hashseeds()
    rng = common.Rng(chk.seed, "c09")
    h2, frac = probe_name_order_seed(exclude=(h1,))
    chk.extra["name_order_probe"] = {"hashseed": h2, "fraction_of_name_pairs_reversed": round(frac, 2)}
    if chk.tier == "quick":
        hashseeds = [h0, h1, h2]
    else:
        hashseeds = [h0, h0, h1, h2, rng.randrange(24, 2**32 - 1)]
    chk.extra["hashseeds"] = hashseeds
    chk.extra["set_order_probe"] = {str(h): o for h, o in orders.items() if h in (h0, h1)}
    worlds = [gen_world(rng, WANTS[i % len(WANTS)]) for i in range(size["worlds"])]
    scratch = Path(tempfile.mkdtemp(prefix="erdos-verif-c09-"))
    try:
        agree, compared = run_cli_worlds(chk, worlds, hashseeds, scratch)
        chk.traces_validated = agree
        chk.extra["worlds_compared"] = compared
        chk.extra["worlds_identical_after_masking"] = agree
        if broken:

            def search():
                srng = common.Rng(chk.seed, "c09-search")
                ws = [gen_world(srng, WANTS[i % len(WANTS)]) for i in range(size["search"])]
                run_cli_worlds(chk, ws, hashseeds, scratch / "search")

            common.broken_obligation(chk, broken, search)
    finally:
        shutil.rmtree(scratch, ignore_errors=True)
    chk.rule = (
        "worlds: sim_gen worlds (1-2 pools x 1-3 workers x GPU/CPU, 1-3 job graphs from task|seq|par|cond or random DAGs, 1-2 strategies per task, "
        "fixed / closed_loop / periodic releases, per-job deadline variance) restricted to the bundled EDF / FIFO / LSF policies with --scheduler_runtime=0, "
        "plus poisson / gamma release policies, deadline variance from flags, runtime variance, conditionals (forced in turn: world i has feature "
        f"{WANTS}[i mod 6]), resolve_conditionals_at_submission / decompose_deadlines / enforce_deadlines, json or yaml "
        "descriptions; each world is executed by `python main.py` in fresh processes (quick: 2 with PYTHONHASHSEED values that provably order a set of the "
        "resource names differently; thorough: 4 = the first environment twice, the differing one, a random one) and the CSV files are compared byte for "
        "byte after masking SCHEDULER_FINISHED.true_runtime; evaluations = worlds; non-trivial = exit 0, one SIMULATOR_END row, at least one TASK_FINISHED "
        "row and at least one source of randomness in the world; distinct = hash of the world summary"
    )
    chk.assumptions += [
        "a fixed scheduler runtime (--scheduler_runtime=0): with the default -1 the measured wall-clock duration becomes simulated time and runs differ by design",
        "only the bundled greedy policies EDF / FIFO / LSF are run through the command line (solver-based policies are covered by C10-C14 on their own)",
        "the only masked field is the last column of SCHEDULER_FINISHED rows (Placements.true_runtime, time.time() difference); everything else, including the input_flag rows and all uuids, is compared byte for byte",
        "same machine, same interpreter build, same numpy: 'different machines' is covered only in so far as nothing but (description, flags, seed, PYTHONHASHSEED) is varied and found to matter",
        "worlds whose processes exceed the 120 s timeout are not compared (counted under outcome:timeout)",
    ]


def replay(path) -> int:
    data = json.loads(open(path).read())
    if "world" not in data:
        print("replay holds no failing input (broken obligation):", data.get("broken"))
        return 1
    world = data["world"]
    pair = data.get("differing_pair") or data["hashseeds"][:2]
    scratch = Path(tempfile.mkdtemp(prefix="erdos-verif-c09-replay-"))
    try:
        sigs = set()
        for attempt in range(2):
            with ThreadPoolExecutor(max_workers=2) as pool:
                args, futs = run_world(world, scratch / f"try{attempt}", pair, pool)
                res = [f.result() for f in futs]
            if any(r["timeout"] for r in res):
                print("process timeout during replay")
                return 2
            for sig, detail, _ in compare_world(world, res):
                sigs.add(sig)
                if sig == data["signature"]:
                    print("command:", " ".join(a.replace(str(scratch), "<scratch>") for a in args), f"(PYTHONHASHSEED={pair[0]} vs {pair[1]})")
                    print("first differing row:", json.dumps({k: detail.get(k) for k in ("first_differing_row", "first_block_row", "a", "b")}, indent=1))
            if data["signature"] in sigs:
                break
        print("signatures on the current tree:", sorted(sigs))
        if data["signature"] in sigs:
            print(f"VIOLATION property=C09 replay={path}")
            return 1
        return 0
    finally:
        shutil.rmtree(scratch, ignore_errors=True)
