"""C04 — resource ledger conservation.

Lean: ErdosVerif.Model.Ledger (M4/M5) + Props/C04.lean.
Correspondence: operation histories on the real Resources / Worker / WorkerPool
vs the model, every getter and every private map compared after every op.
Oracle (model independent): ledger equations on the implementation's snapshots.
"""
from __future__ import annotations

import copy as _copy
import json

from harness import common
from harness.gen import ledger_gen

TECHNIQUE = "Lean 4 theorems over an executable ledger model (induction over operation histories); model tied to /repo by differential operation-history correspondence"
CORPUS = common.VERIF / "harness" / "gen" / "corpus" / "ledger"


# --------------------------------------------------------------------------
# oracle on implementation snapshots
# --------------------------------------------------------------------------


def by_name(vec):
    out = {}
    for name, _i, q in vec:
        out[name] = out.get(name, 0) + q
    return out


def all_strats(case):
    st = {s["sid"]: s for s in case["strats"]}
    for op in case["ops"]:
        for key in ("s",):
            if op.get(key):
                st[op[key]["sid"]] = op[key]
        for s in op.get("strats", []) or []:
            st[s["sid"]] = s
    return st


def same_name_keys(req):
    names = [e[0] for e in req]
    return len(names) != len(set(names))


def op_req(op):
    if op["op"] == "allocate_multiple":
        return [op["req"]]
    out = []
    if op.get("s"):
        out.append(op["s"]["req"])
    for s in op.get("strats") or []:
        out.append(s["req"])
    return out


def oracle(case, init_snap, obs):
    """Yields (signature, detail) for every property failure visible in the
    implementation's own observations."""
    strats = all_strats(case)
    api_only = case.get("stream") in ("worker", "exhaustive", "alias")
    tainted = set()  # (obj, worker) after a reported root cause or caller misuse
    prev = init_snap
    for i, (op, o) in enumerate(zip(case["ops"], obs)):
        snap = o["snap"]
        tgt = op["obj"]
        if o["out"] == "no-such-object":
            prev = snap
            continue
        # (O6) independence: objects other than the target are untouched
        for j in range(len(prev)):
            if j != tgt and snap[j] != prev[j]:
                yield (f"copy-not-independent op={op['op']}", {"step": i, "object": j})
        # caller misuse that the API accepts: double placement / double load
        if op["op"] in ("w_place", "w_load") and op["w"] < len(prev[tgt]["workers"]):
            before = prev[tgt]["workers"][op["w"]]
            if op["op"] == "w_place" and any(t == op["t"] for t, _ in before["placed"]):
                tainted.add((tgt, op["w"]))
            if op["op"] == "w_load" and any(p[0] == op["p"] for p in before["avail_prof"] + before["pend_prof"]):
                tainted.add((tgt, op["w"]))
        if op["op"] in ("p_place", "p_load"):
            for wi, before in enumerate(prev[tgt]["workers"]):
                if op["op"] == "p_place" and any(t == op["t"] for t, _ in before["placed"]):
                    tainted.add((tgt, wi))
                if op["op"] == "p_load" and any(p[0] == op["p"] for p in before["avail_prof"] + before["pend_prof"]):
                    tainted.add((tgt, wi))
        # (O2) a refused request changes nothing
        pool_wide = op["op"] in ("p_load", "p_evict") and op.get("wid") is None
        if o["out"] != "ok" and op["op"] not in ("copy", "deepcopy") and not pool_wide:
            # (pool-wide load/evict is a sequence of per-worker requests; a leak in the
            # refused worker is caught by the held-iff-resident equations below)
            if snap[tgt] != prev[tgt]:
                same = any(same_name_keys(r) for r in op_req(op))
                if not any((tgt, wi) in tainted for wi in range(len(snap[tgt]["workers"]))):
                    yield (
                        f"refusal-changed-state op={op['op']} exc={o['out']} same-name-request-keys={same}",
                        {"step": i},
                    )
                for wi in range(len(snap[tgt]["workers"])):
                    tainted.add((tgt, wi))
        # removal of a resident must succeed
        if api_only and op["op"] == "w_remove" and o["out"] != "ok" and op["w"] < len(prev[tgt]["workers"]):
            before = prev[tgt]["workers"][op["w"]]
            pl = dict((t, s) for t, s in before["placed"])
            if op["t"] in pl and (tgt, op["w"]) not in tainted:
                s = strats.get(pl[op["t"]])
                zero = s is not None and sum(e[2] for e in s["req"]) == 0
                yield (f"remove-of-resident-raised exc={o['out']} zero-demand={zero} batch={bool(s and s['batch'])}", {"step": i})
                tainted.add((tgt, op["w"]))
        # copy / deepcopy postconditions
        if op["op"] in ("copy", "deepcopy") and o["out"] == "ok":
            src, new = snap[tgt], snap[-1]
            for wi, (a, b) in enumerate(zip(src["workers"], new["workers"])):
                if by_name(a["total"]) != by_name(b["total"]):
                    yield (f"{op['op']}-changes-totals", {"step": i})
                if op["op"] == "deepcopy":
                    if b["avail"] != b["total"] or b["allocs"] or b["placed"] or b["avail_prof"] or b["pend_prof"]:
                        yield ("deepcopy-not-empty", {"step": i, "worker": wi})
                else:
                    if (tgt, wi) in tainted:
                        tainted.add((len(snap) - 1, wi))
                        continue
                    if by_name(a["avail"]) != by_name(b["avail"]):
                        yield ("copy-different-availability", {"step": i, "worker": wi})
                    if a["placed"] != b["placed"] or a["avail_prof"] != b["avail_prof"] or a["pend_prof"] != b["pend_prof"]:
                        yield ("copy-different-residents", {"step": i, "worker": wi})
            if op["op"] == "copy" and src["placed"] != new["placed"]:
                yield ("copy-different-pool-placements", {"step": i})
        # pool-level aggregate getters = sum over the pool's workers (what the utilisation rows and the
        # pool-level fit checks of the planners read)
        for oi, (pool, agg) in enumerate(zip(snap, o.get("pool_agg") or [])):
            for key in ("q_avail", "q_total", "q_alloc"):
                want = [sum(w[key][ki] for w in pool["workers"]) for ki in range(len(agg[key]))]
                if agg[key] != want:
                    yield (f"pool-aggregate-differs-from-sum-of-workers getter={key} after={op['op']}", {"step": i, "object": oi, "pool": agg[key], "workers": want})
                    break
        # per-worker ledger equations
        for oi, pool in enumerate(snap):
            for wi, w in enumerate(pool["workers"]):
                # (O1) conservation per exact key
                alloc = {}
                for _c, lst in w["allocs"]:
                    for name, rid, q in lst:
                        alloc[(name, rid)] = alloc.get((name, rid), 0) + q
                tot = {(n, r): q for n, r, q in w["total"]}
                av = {(n, r): q for n, r, q in w["avail"]}
                if set(tot) != set(av) or any(av[k] + alloc.get(k, 0) != tot[k] for k in tot) or any(k not in tot for k in alloc) or any(q < 0 for q in av.values()):
                    yield ("conservation-broken", {"step": i, "object": oi, "worker": wi})
                if not api_only or (oi, wi) in tainted:
                    continue
                if oi > 0 and any(strats.get(sid, {}).get("batch") for _t, sid in w["placed"]):
                    # Worker.__copy__ keeps batch members in `placed` but not the batch maps;
                    # the held-iff-resident equations are not meaningful there (see D9 probe).
                    continue
                # (O3) held iff resident, with the strategy's demand per name
                expected = {}
                members = {sid: m for sid, m in w["batches"]}
                for t, sid in w["placed"]:
                    s = strats.get(sid)
                    if s is None:
                        continue
                    if s["batch"]:
                        if members.get(sid):
                            expected[f"B{sid}"] = by_name(s["req"])
                    else:
                        expected[f"t{t}"] = by_name(s["req"])
                for p, _rt, req in w["avail_prof"] + w["pend_prof"]:
                    expected[f"p{p}"] = by_name(req)
                is_copy = oi > 0
                actual = {}
                for c, lst in w["allocs"]:
                    d = by_name(lst)
                    if c.startswith("B") and is_copy:
                        c = "B*"  # copies do not keep the batch maps (reported separately)
                    if sum(d.values()) > 0:
                        for k, v in d.items():
                            actual.setdefault(c, {})
                            actual[c][k] = actual[c].get(k, 0) + v
                exp_pos = {c: {k: v for k, v in d.items() if v > 0} for c, d in expected.items() if sum(d.values()) > 0}
                act_pos = {c: {k: v for k, v in d.items() if v > 0} for c, d in actual.items()}
                if is_copy:
                    exp_pos = {c: d for c, d in exp_pos.items() if not c.startswith("B")}
                    act_pos = {c: d for c, d in act_pos.items() if not c.startswith("B")}
                for c in exp_pos:
                    if c not in act_pos:
                        stale = any(not m for _sid, m in prev[oi]["workers"][wi]["batches"]) if oi < len(prev) else False
                        yield (f"resident-without-allocation kind={c[0]} stale-empty-batch-entry={stale}", {"step": i, "object": oi, "worker": wi, "comp": c})
                        tainted.add((oi, wi))
                        break
                    if act_pos[c] != exp_pos[c]:
                        yield (f"resident-holds-wrong-amount kind={c[0]}", {"step": i, "object": oi, "worker": wi, "comp": c})
                        tainted.add((oi, wi))
                        break
                else:
                    for c in act_pos:
                        if c not in exp_pos:
                            yield (f"allocation-without-resident kind={c[0]}", {"step": i, "object": oi, "worker": wi, "comp": c})
                            tainted.add((oi, wi))
                            break
                if (oi, wi) in tainted:
                    continue
                # (O5) resident demand within capacity per name
                dem = {}
                for d in exp_pos.values():
                    for k, v in d.items():
                        dem[k] = dem.get(k, 0) + v
                totn = by_name(w["total"])
                if any(v > totn.get(k, 0) for k, v in dem.items()) and not is_copy:
                    yield ("resident-demand-exceeds-capacity", {"step": i, "object": oi, "worker": wi})
                # (O4) nothing resident => full capacity
                if not exp_pos and not expected and w["avail"] != w["total"]:
                    yield ("empty-worker-not-at-full-capacity", {"step": i, "object": oi, "worker": wi})
        prev = snap


# --------------------------------------------------------------------------


def impl_run(case):
    from harness.impl import ledger_impl

    w = ledger_impl.World(case)
    init = w.snap()
    obs = []
    for op in case["ops"]:
        out, ret = w.apply(op)
        obs.append({"out": out, "ret": ret, "snap": w.snap(), "pool_agg": w.pool_agg()})
    return init, obs


def first_diff(a, b, path=""):
    if type(a) != type(b):
        return f"{path}: {a!r} != {b!r}"
    if isinstance(a, dict):
        for k in sorted(set(a) | set(b)):
            if k not in a or k not in b:
                return f"{path}/{k}: missing on one side"
            d = first_diff(a[k], b[k], f"{path}/{k}")
            if d:
                return d
        return None
    if isinstance(a, list):
        if len(a) != len(b):
            return f"{path}: len {len(a)} != {len(b)}: {a!r} vs {b!r}"
        for i, (x, y) in enumerate(zip(a, b)):
            d = first_diff(x, y, f"{path}[{i}]")
            if d:
                return d
        return None
    return None if a == b else f"{path}: impl {a!r} != model {b!r}"


def shrink(case, still_fails):
    """Greedy op deletion while `still_fails(case)` holds."""
    ops = list(case["ops"])
    changed = True
    while changed:
        changed = False
        for i in range(len(ops)):
            cand = ops[:i] + ops[i + 1 :]
            # object indices stay valid only if we do not delete a copy that later ops use
            c2 = dict(case, ops=cand)
            nobj = 1
            ok = True
            for o in cand:
                if o["obj"] >= nobj:
                    ok = False
                    break
                if o["op"] in ("copy", "deepcopy"):
                    nobj += 1
            if not ok:
                continue
            try:
                if still_fails(c2):
                    ops = cand
                    changed = True
                    break
            except Exception:
                continue
    return dict(case, ops=ops)


def gen_cases(chk):
    rng = common.Rng(chk.seed, "c04")
    cases = []
    if CORPUS.exists():
        for f in sorted(CORPUS.glob("*.json")):
            cases.append(json.loads(f.read_text()))
    cases.extend(ledger_gen.alias_cases())
    quick = chk.tier == "quick"
    n_rand = 1500 if quick else 30000
    for stream in ("worker", "raw", "mixed"):
        r = rng.sub(stream)
        for _ in range(n_rand // 3):
            cases.append(ledger_gen.gen_case(r, stream, r.randint(1, 40 if not quick else 25)))
    cases.extend(ledger_gen.exhaustive_cases(3 if quick else 4))
    return cases


def run(chk: common.Check):
    broken = chk.lean_obligations()
    cases = gen_cases(chk)
    impl = [impl_run(c) for c in cases]
    disagreements = []
    try:
        replies = common.run_driver([{k: v for k, v in c.items() if k != "stream"} for c in cases])
    except common.LeanFailure as e:
        broken.append(f"driver: {e.what}")
        replies = None
    reported = set()
    for ci, case in enumerate(cases):
        init, obs = impl[ci]
        nontrivial = any(o["out"] == "ok" for o in obs) and any(
            w["allocs"] for o in obs for p in o["snap"] for w in p["workers"]
        )
        chk.case({"stream": case.get("stream"), "init": case["init"], "ops": case["ops"][:6], "n_ops": len(case["ops"])}, nontrivial)
        chk.count(f"stream:{case.get('stream')}")
        for op, o in zip(case["ops"], obs):
            chk.count(f"op:{op['op']}")
            chk.count(f"out:{o['out']}")
        # oracle on the implementation
        for sig, detail in oracle(case, init, obs):
            if sig in reported and chk.matches_known(sig) is None:
                continue
            reported.add(sig)
            sig0 = sig

            def fails(c, sig0=sig0):
                i2, o2 = impl_run(c)
                return any(s == sig0 for s, _ in oracle(c, i2, o2))

            small = shrink(case, fails) if chk.matches_known(sig) is None else case
            chk.violation(sig, {"suite": "ledger", "case": small, "detail": detail, "how": "oracle on the real Resources/Worker/WorkerPool"})
        # correspondence
        if replies is not None:
            rep = replies[ci]
            if "obs" not in rep:
                disagreements.append((ci, f"driver: {rep}"))
                continue
            if case.get("stream") == "alias":
                continue  # model is value-semantic by design; the oracle decides this stream
            d = first_diff([{k: v for k, v in o.items() if k != "pool_agg"} for o in obs], rep["obs"])
            if d:
                disagreements.append((ci, d))
            else:
                chk.traces_validated += 1
    chk.extra["correspondence_disagreements"] = len(disagreements)
    if disagreements:
        ci, d = disagreements[0]

        def fails(c):
            i2, o2 = impl_run(c)
            r2 = common.run_driver([{k: v for k, v in c.items() if k != "stream"}])[0]
            return first_diff([{k: v for k, v in o.items() if k != "pool_agg"} for o in o2], r2.get("obs")) is not None

        small = shrink(cases[ci], fails)
        broken.append(f"correspondence ledger: {len(disagreements)} case(s) differ; first: {d}")
        chk.extra["first_disagreement"] = {"case": small, "diff": d}
    if broken:

        def search():
            # widened generator run through the oracle only (real code)
            rng = common.Rng(chk.seed, "c04-search")
            for stream in ("worker", "mixed", "raw"):
                for _ in range(3000):
                    c = ledger_gen.gen_case(rng, stream, rng.randint(1, 30))
                    i2, o2 = impl_run(c)
                    for sig, detail in oracle(c, i2, o2):
                        if chk.matches_known(sig) is None:
                            chk.violation(sig, {"suite": "ledger", "case": c, "detail": detail, "how": "failing-input search (oracle on real code)"})
                            return

        common.broken_obligation(chk, broken, search)
    chk.exhaustive = False
    chk.rule = (
        "cases = corpus + alias probes + random histories (streams worker/raw/mixed, length<=25 quick / 40 thorough, 1-3 workers, "
        "vectors of <=3 keys incl. several instances of one type and `any` keys, strategies incl. batch, zero and same-name requests, "
        "copy/deepcopy creating further objects) + ALL histories up to length 3 (quick) / 4 (thorough) over an 11-op alphabet on a worker "
        "with two GPU instances; non-trivial = at least one op succeeded and some allocation existed; distinct = hash of canonical case"
    )
    chk.assumptions += [
        "tasks stay VIRTUAL in this suite (Worker.step only advances profiles); task stepping is covered by the simulator suite",
        "histories where the caller places an already-placed task or loads an already-loaded profile are compared with the model but excluded from the held-iff-resident oracle (API misuse)",
        "quantities are non-negative integers",
    ]


def replay(path) -> int:
    data = json.loads(open(path).read())
    case = data["case"]
    init, obs = impl_run(case)
    sigs = [s for s, _ in oracle(case, init, obs)]
    print("signatures on the current tree:", sigs)
    if data["signature"] in sigs:
        print(f"VIOLATION property=C04 replay={path}")
        return 1
    return 0
