"""C08 — end-to-end simulator suite — see _e2e_common.py."""
from harness import common
from harness.suites import _e2e_common as e2e

TECHNIQUE = "Lean 4 theorems over an executable simulator model (any policy = decision tape); model tied to /repo by replaying recorded end-to-end runs and comparing the complete trace"


def run(chk: common.Check):
    # what the task-graph rows print (deadline, release, finished / cancelled) on task graphs whose tasks carry
    # DIFFERENT deadlines (decomposed deadlines, hand-built graphs): direct-call histories on real TaskGraphs
    from harness.suites import _taskgraph_common as tg

    tg.run_suite(chk, "C08")
    rule = chk.rule
    e2e.run_suite(chk, "C08", streams=("regular", "dag", "batch", "regular"))
    chk.rule = "task-graph getters behind the TASK_GRAPH_* rows: " + (rule or "") + " || end-to-end: " + chk.rule


def replay(path) -> int:
    import json

    if json.loads(open(path).read()).get("suite") == "sim":
        return e2e.replay("C08", path)
    from harness.suites import _taskgraph_common as tg

    return tg.replay("C08", path)
