"""./check <Cxx> [--tier quick|thorough] [--replay file]

exit 0: property held on everything explored (KNOWN-FINDING lines allowed)
exit 1: VIOLATION property=<id> replay=<path> [no-failing-input-found]
exit 2: the check itself is broken (harness crash, tool failure, timeout)
"""
import argparse
import importlib
import os
import sys
import traceback

from . import common


def main():
    ap = argparse.ArgumentParser()
    ap.add_argument("prop")
    ap.add_argument("--tier", default=os.environ.get("VERIF_TIER", "quick"), choices=["quick", "thorough"])
    ap.add_argument("--replay", default=None)
    a = ap.parse_args()
    prop = a.prop.upper()
    try:
        mod = importlib.import_module(f"harness.suites.{prop.lower()}")
    except ModuleNotFoundError as e:
        print(f"no suite for {prop}: {e}", file=sys.stderr)
        sys.exit(common.EXIT_BROKEN)
    try:
        if a.replay:
            sys.exit(mod.replay(a.replay))
        chk = common.Check(prop, a.tier, getattr(mod, "TECHNIQUE", "lean4-proof+correspondence"))
        mod.run(chk)
        chk.finish()
    except SystemExit:
        raise
    except (KeyboardInterrupt, MemoryError):
        traceback.print_exc()
        sys.exit(common.EXIT_BROKEN)
    except common.CorrespondenceBroken as e:
        traceback.print_exc()
        if a.replay or "chk" not in locals():
            sys.exit(common.EXIT_BROKEN)
        chk.violation(f"obligation-broken: correspondence: {e.what}", dict(e.detail, note="no failing input found; the run of the suite stopped here"), found_input=False)
        chk.finish()
    except BaseException as e:
        traceback.print_exc()
        # Where did it come from? An exception raised INSIDE the repository under test, on inputs on which the
        # harness expects it to return (it does on the unchanged tree), means the implementation no longer behaves
        # as the model does: that is a broken correspondence (no failing input attached), not a tool failure.
        frames = traceback.extract_tb(e.__traceback__)
        repo = str(common.REPO.resolve())
        inner = frames[-1].filename if frames else ""
        try:
            inner_in_repo = os.path.realpath(inner).startswith(repo + os.sep)
        except Exception:
            inner_in_repo = False
        # The harness reads private attributes of the implementation's objects to compare them with the model; when
        # such an attribute no longer exists the tie between model and code cannot be checked any more.
        unobservable = None
        if isinstance(e, AttributeError) and getattr(e, "obj", None) is not None:
            try:
                mod_file = getattr(sys.modules.get(type(e.obj).__module__), "__file__", "") or ""
                if os.path.realpath(mod_file).startswith(repo + os.sep):
                    unobservable = f"{type(e.obj).__module__}.{type(e.obj).__qualname__}.{getattr(e, 'name', '?')}"
            except Exception:
                unobservable = None
        if unobservable and not inner_in_repo and not a.replay and "chk" in locals():
            try:
                chk.violation(
                    f"obligation-broken: correspondence: the harness can no longer observe {unobservable} (the attribute the model is compared with is gone)",
                    {"exception": repr(e)[:300], "traceback": traceback.format_exc()[-3000:],
                     "note": "no failing input found; the run of the suite stopped here"},
                    found_input=False,
                )
                chk.finish()
            except SystemExit:
                raise
            except BaseException:
                traceback.print_exc()
        if inner_in_repo and not a.replay and "chk" in locals():
            try:
                where = f"{os.path.relpath(os.path.realpath(inner), repo)}:{frames[-1].lineno} in {frames[-1].name}"
                chk.violation(
                    f"obligation-broken: correspondence: the implementation raised {type(e).__name__} at {where} where the harness (and the model) expect it to return",
                    {"exception": repr(e)[:300], "traceback": traceback.format_exc()[-3000:],
                     "note": "no failing input found; the run of the suite stopped here"},
                    found_input=False,
                )
                chk.finish()
            except SystemExit:
                raise
            except BaseException:
                traceback.print_exc()
        print(f"[{prop}] check machinery failed (this is not a property violation)", file=sys.stderr)
        sys.exit(common.EXIT_BROKEN)


if __name__ == "__main__":
    main()
