"""./check <Cxx> [--tier quick|thorough] [--replay file]

exit 0: property held on everything explored (KNOWN-FINDING lines allowed)
exit 1: VIOLATION property=<id> replay=<path> [no-failing-input-found]
exit 2: the check itself is broken (harness crash, tool failure, timeout)
"""
import argparse
import importlib
import os
import sys
import traceback

from . import common


def main():
    ap = argparse.ArgumentParser()
    ap.add_argument("prop")
    ap.add_argument("--tier", default=os.environ.get("VERIF_TIER", "quick"), choices=["quick", "thorough"])
    ap.add_argument("--replay", default=None)
    a = ap.parse_args()
    prop = a.prop.upper()
    try:
        mod = importlib.import_module(f"harness.suites.{prop.lower()}")
    except ModuleNotFoundError as e:
        print(f"no suite for {prop}: {e}", file=sys.stderr)
        sys.exit(common.EXIT_BROKEN)
    try:
        if a.replay:
            sys.exit(mod.replay(a.replay))
        chk = common.Check(prop, a.tier, getattr(mod, "TECHNIQUE", "lean4-proof+correspondence"))
        mod.run(chk)
        chk.finish()
    except SystemExit:
        raise
    except BaseException:
        traceback.print_exc()
        print(f"[{prop}] check machinery failed (this is not a property violation)", file=sys.stderr)
        sys.exit(common.EXIT_BROKEN)


if __name__ == "__main__":
    main()
