"""Shared harness machinery: paths, PRNG, Lean build + audit, driver pipe,
evidence writer, known findings, violation reporting.

Run with /venv/bin/python (has the repository's third-party dependencies).
The real implementation is always imported from REPO's current working tree.
"""
from __future__ import annotations

import fcntl
import hashlib
import json
import os
import random
import re
import subprocess
import sys
import time
from pathlib import Path

VERIF = Path(__file__).resolve().parent.parent
REPO = Path(os.environ.get("ERDOS_REPO", "/repo"))
LEAN = VERIF / "lean"
DRIVER = LEAN / ".lake" / "build" / "bin" / "erdos_driver"
EVID = VERIF / "evidence"
REPLAYS = VERIF / "replays"
ALLOWED_AXIOMS = {"propext", "Classical.choice", "Quot.sound"}
FORBIDDEN = re.compile(
    r"\bsorry\b|\badmit\b|^\s*axiom\s|native_decide|bv_decide|implemented_by|\bunsafe\s|maxHeartbeats\s+0\b",
    re.M,
)

EXIT_OK, EXIT_VIOLATION, EXIT_BROKEN = 0, 1, 2


def use_repo():
    """Put the repository under test first on sys.path (idempotent)."""
    p = str(REPO)
    if p in sys.path:
        sys.path.remove(p)
    sys.path.insert(0, p)
    os.environ.setdefault("ERDOS_SIM_VERIF", "1")


def seed_from_env() -> int:
    try:
        return int(os.environ.get("VERIF_SEED", "0"))
    except ValueError:
        return 0


class Rng(random.Random):
    """Single PRNG; sub-streams are derived by name so that adding a generator
    does not shift the others."""

    def __init__(self, seed: int, name: str = "root"):
        self._seed = seed
        self._name = name
        h = hashlib.sha256(f"{seed}:{name}".encode()).digest()
        super().__init__(int.from_bytes(h[:8], "big"))

    def sub(self, name: str) -> "Rng":
        return Rng(self._seed, f"{self._name}/{name}")


# --------------------------------------------------------------------------
# Lean side
# --------------------------------------------------------------------------


class CorrespondenceBroken(Exception):
    """The implementation stopped behaving as the model does in a way that ends the suite (e.g. it raises while the
    inputs are being set up): reported as a violation without a failing input, not as a tool failure."""

    def __init__(self, what, detail=None):
        super().__init__(what)
        self.what = what
        self.detail = detail or {}


class LeanFailure(Exception):
    def __init__(self, what, log=""):
        super().__init__(what)
        self.what = what
        self.log = log


def _strip_comments(src: str) -> str:
    # remove nested block comments and line comments (good enough for a scan)
    out, i, depth = [], 0, 0
    while i < len(src):
        if src.startswith("/-", i):
            depth += 1
            i += 2
        elif src.startswith("-/", i) and depth:
            depth -= 1
            i += 2
        elif depth:
            i += 1
        elif src.startswith("--", i):
            j = src.find("\n", i)
            i = len(src) if j < 0 else j
        else:
            out.append(src[i])
            i += 1
    return "".join(out)


def scan_sources() -> list[str]:
    hits = []
    for f in sorted((LEAN / "ErdosVerif").rglob("*.lean")):
        body = _strip_comments(f.read_text())
        for m in FORBIDDEN.finditer(body):
            hits.append(f"{f.relative_to(LEAN)}: {m.group(0).strip()}")
    return hits


def lake_build(timeout=3000) -> tuple[bool, str]:
    """Regenerate the tables from REPO, then `lake build` (lib + driver)."""
    lock = open(LEAN / ".build.lock", "w")
    fcntl.flock(lock, fcntl.LOCK_EX)
    try:
        subprocess.run(
            [sys.executable, str(VERIF / "harness" / "gen_tables.py")],
            check=True,
            cwd=VERIF,
        )
        p = subprocess.run(
            ["lake", "build"],
            cwd=LEAN,
            stdout=subprocess.PIPE,
            stderr=subprocess.STDOUT,
            text=True,
            timeout=timeout,
        )
        return p.returncode == 0, p.stdout
    finally:
        fcntl.flock(lock, fcntl.LOCK_UN)
        lock.close()


def registry(prop: str) -> dict:
    """Merge lean/registry/<prop>.json and lean/registry/<prop>_*.json."""
    files = sorted((LEAN / "registry").glob(f"{prop}.json")) + sorted((LEAN / "registry").glob(f"{prop}_*.json"))
    if not files:
        raise FileNotFoundError(f"no registry for {prop}")
    out = {"modules": [], "theorems": [], "partial": {}, "not_proved": [], "trusted": []}
    for f in files:
        r = json.loads(f.read_text())
        for k in ("modules", "theorems", "not_proved", "trusted"):
            for x in r.get(k, []):
                if x not in out[k]:
                    out[k].append(x)
        out["partial"].update(r.get("partial", {}))
    return out


def audit(prop: str) -> dict:
    """`#print axioms` for every registered theorem of `prop`.
    Returns {obligations, discharged, failed: [...], axioms: {thm: [...]}}."""
    reg = registry(prop)
    thms = reg["theorems"]
    mods = reg["modules"]
    adir = LEAN / ".audit"
    adir.mkdir(exist_ok=True)
    src = "".join(f"import {m}\n" for m in mods) + "".join(
        f"#print axioms {t}\n" for t in thms
    )
    f = adir / f"Audit_{prop}_{os.getpid()}.lean"
    f.write_text(src)
    try:
        p = subprocess.run(
            ["lake", "env", "lean", str(f)],
            cwd=LEAN,
            stdout=subprocess.PIPE,
            stderr=subprocess.STDOUT,
            text=True,
            timeout=1200,
        )
    finally:
        try:
            f.unlink()
        except OSError:
            pass
    out = p.stdout
    axioms, failed = {}, []
    flat = re.sub(r"\s+", " ", out)
    for t in thms:
        m = re.search(
            r"'" + re.escape(t) + r"' (does not depend on any axioms|depends on axioms: \[([^\]]*)\])",
            flat,
        )
        if not m:
            failed.append({"theorem": t, "why": "missing-or-does-not-compile"})
            continue
        ax = [] if m.group(2) is None else [a.strip() for a in m.group(2).split(",") if a.strip()]
        axioms[t] = ax
        bad = [a for a in ax if a not in ALLOWED_AXIOMS]
        if bad:
            failed.append({"theorem": t, "why": f"axioms {bad}"})
    return {
        "obligations": len(thms),
        "discharged": len(thms) - len(failed),
        "failed": failed,
        "axioms": axioms,
        "log": out if failed else "",
        "registry": reg,
    }


def leanchecker(mods: list[str]) -> tuple[bool, str]:
    p = subprocess.run(
        ["lake", "env", "leanchecker", *mods],
        cwd=LEAN,
        stdout=subprocess.PIPE,
        stderr=subprocess.STDOUT,
        text=True,
        timeout=3000,
    )
    return p.returncode == 0, p.stdout[-4000:]


def run_driver(cases: list[dict], timeout=3000) -> list[dict]:
    """Pipe all cases through the compiled Lean driver; one reply per case."""
    if not DRIVER.exists():
        raise LeanFailure("driver-missing")
    inp = "\n".join(json.dumps(c, separators=(",", ":")) for c in cases) + "\n"
    p = subprocess.run(
        [str(DRIVER)], input=inp, stdout=subprocess.PIPE, stderr=subprocess.PIPE, text=True, timeout=timeout
    )
    if p.returncode != 0:
        raise LeanFailure("driver-crashed", p.stderr[-2000:])
    lines = [l for l in p.stdout.split("\n") if l]
    if len(lines) != len(cases):
        raise LeanFailure(f"driver-reply-count {len(lines)} != {len(cases)}", p.stderr[-2000:])
    return [json.loads(l) for l in lines]


# --------------------------------------------------------------------------
# Known findings
# --------------------------------------------------------------------------


def known_findings(prop: str) -> list[dict]:
    f = VERIF / "known_findings.json"
    if not f.exists():
        return []
    data = json.loads(f.read_text())
    return [e for e in data.get("findings", []) if e["property"] == prop and e.get("status") == "known"]


# --------------------------------------------------------------------------
# Check run: collects everything, writes evidence, decides exit status
# --------------------------------------------------------------------------


def canon_hash(obj) -> str:
    return hashlib.sha1(json.dumps(obj, sort_keys=True, separators=(",", ":")).encode()).hexdigest()


class Check:
    """One run of one property's check."""

    def __init__(self, prop: str, tier: str, technique: str):
        self.prop, self.tier, self.technique = prop, tier, technique
        self.seed = seed_from_env()
        self.t0 = time.time()
        self.violations: list[dict] = []  # {kind, detail, replay, found_input}
        self.known_hits: dict[str, int] = {}
        self.evaluations = 0
        self.nontrivial: set[str] = set()
        self.samples: list = []
        self.dist: dict[str, int] = {}
        self.traces_validated = 0
        self.assumptions: list[str] = []
        self.extra: dict = {}
        self.rule = ""
        self.lean: dict | None = None
        self.exhaustive = False
        self.known = known_findings(prop)

    # ---- bookkeeping ------------------------------------------------------
    def count(self, key: str, n: int = 1):
        self.dist[key] = self.dist.get(key, 0) + n

    def case(self, canonical, nontrivial: bool, sample_every: int = 0):
        self.evaluations += 1
        if nontrivial:
            self.nontrivial.add(canon_hash(canonical))
        if len(self.samples) < 3 or (sample_every and self.evaluations % sample_every == 0 and len(self.samples) < 8):
            self.samples.append(canonical)

    # ---- Lean obligations -------------------------------------------------
    def lean_obligations(self):
        """Build + scan + audit. Returns list of broken obligations (strings)."""
        broken = []
        ok, log = lake_build()
        if not ok:
            broken.append("lake-build-failed")
            self.extra["lake_log_tail"] = log[-3000:]
        hits = scan_sources()
        if hits:
            broken.append("forbidden-token: " + "; ".join(hits[:5]))
        if ok:
            a = audit(self.prop)
            self.lean = a
            for f in a["failed"]:
                broken.append(f"theorem {f['theorem']}: {f['why']}")
            if self.tier == "thorough" and not broken:
                okc, logc = leanchecker(a["registry"]["modules"])
                self.extra["leanchecker"] = "ok" if okc else logc[-1500:]
                if not okc:
                    broken.append("leanchecker-rejected")
        else:
            try:
                reg = registry(self.prop)
                self.lean = {"obligations": len(reg["theorems"]), "discharged": 0, "failed": [], "axioms": {}, "registry": reg}
            except Exception:
                self.lean = {"obligations": 1, "discharged": 0, "failed": [], "axioms": {}, "registry": {"modules": [], "theorems": []}}
        return broken

    # ---- violations ------------------------------------------------------
    def matches_known(self, signature: str) -> dict | None:
        for e in self.known:
            if re.search(e["match"], signature):
                return e
        return None

    def violation(self, signature: str, replay: dict, found_input: bool = True):
        """Report a property failure identified by `signature` (a stable,
        human-readable description of the failing input class). Known findings
        are counted, everything else becomes a VIOLATION."""
        e = self.matches_known(signature)
        if e is not None and found_input:
            self.known_hits[e["id"]] = self.known_hits.get(e["id"], 0) + 1
            return
        if len(self.violations) >= 40:
            self.violations.append({"signature": signature, "replay": None, "found_input": found_input})
            return
        REPLAYS.mkdir(exist_ok=True)
        name = f"{self.prop}_{canon_hash([signature, replay])[:10]}.json"
        path = REPLAYS / name
        replay = dict(replay)
        replay.update({"property": self.prop, "signature": signature, "found_input": found_input})
        path.write_text(json.dumps(replay, indent=1, default=str))
        self.violations.append({"signature": signature, "replay": str(path.relative_to(VERIF)), "found_input": found_input})

    # ---- finish ---------------------------------------------------------
    def finish(self):
        wall = time.time() - self.t0
        lean = self.lean or {"obligations": 1, "discharged": 0, "registry": {"modules": [], "theorems": []}, "axioms": {}}
        reg = lean["registry"]
        cov = {
            "obligations": max(1, lean["obligations"]),
            "discharged": lean["discharged"],
            "checker_cmd": "cd lean && lake build && lake env lean <#print axioms over registry/%s.json>%s"
            % (self.prop, " && lake env leanchecker <modules>" if self.tier == "thorough" else ""),
            "trusted_base": [
                "Lean 4.33 kernel",
                "axioms used by the registered theorems: "
                + ", ".join(sorted({a for v in lean.get("axioms", {}).values() for a in v}) or ["none"]),
                "hand-written model tied to the code by the correspondence suite (differential testing, bounded by the explored cases)",
                "harness generators / canonicalisers / differ; Lean driver JSON parsing; CPython semantics",
            ]
            + list(reg.get("trusted", [])),
            "theorems": reg.get("theorems", []),
            "partial_theorems": reg.get("partial", {}),
            "not_proved": reg.get("not_proved", []),
            "evaluations": self.evaluations,
            "distinct_nontrivial": len(self.nontrivial),
            "rule": self.rule,
            "samples": self.samples[:8] or ["(no cases)"],
            "traces_validated_against_impl": self.traces_validated,
            "distribution": dict(sorted(self.dist.items())),
            "known_findings_reproduced": self.known_hits,
            "exhaustive": self.exhaustive,
            "technique": self.technique,
        }
        cov.update(self.extra)
        ev = {
            "property_id": self.prop,
            "tier": self.tier,
            "seed": self.seed,
            "level": "proof",
            "coverage": cov,
            "assumptions": self.assumptions,
            "wall_s": round(wall, 2),
            "violations": len(self.violations),
        }
        EVID.mkdir(exist_ok=True)
        (EVID / f"{self.prop}.json").write_text(json.dumps(ev, indent=1, default=str) + "\n")
        for e in self.known:
            n = self.known_hits.get(e["id"], 0)
            if n:
                print(f"KNOWN-FINDING: property={self.prop} {e['id']} {e['what']} (reproduced on {n} case(s))")
            else:
                print(f"note: known finding {e['id']} for {self.prop} did not reproduce in this run")
        if self.violations:
            for v in self.violations:
                print(f"  failing class: {v['signature']}")
            for v in self.violations[:5]:
                tail = "" if v["found_input"] else " no-failing-input-found"
                print(f"VIOLATION property={self.prop} replay={v['replay']}{tail}")
            print(f"[{self.prop}] {len(self.violations)} violation(s); evidence/{self.prop}.json written; {wall:.1f}s")
            sys.exit(EXIT_VIOLATION)
        print(
            f"[{self.prop}] ok: {lean['discharged']}/{lean['obligations']} theorems, "
            f"{self.evaluations} cases ({len(self.nontrivial)} distinct non-trivial), {wall:.1f}s"
        )
        sys.exit(EXIT_OK)


def broken_obligation(chk: Check, broken: list[str], search_fn=None):
    """A proof obligation or the correspondence no longer checks. Per the
    brief this is not yet a violation: run the failing-input search (done by
    the suite through `search_fn`, which calls chk.violation(..., found_input=True)
    for real failures). If it finds nothing, still report, naming what broke."""
    before = len(chk.violations)
    if search_fn is not None:
        search_fn()
    if len(chk.violations) == before:
        chk.violation(
            "obligation-broken: " + " | ".join(broken)[:400],
            {"broken": broken, "note": "no failing input found by the search; the property is no longer shown to hold"},
            found_input=False,
        )
