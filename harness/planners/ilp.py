"""Planner plugin: ILPScheduler (schedulers/ilp_scheduler.py, Gurobi back-end,
non-batching mode) for the planner clauses of C10, C11, C12, C14.  (Batching mode is the
plugin `ilpbatch.py`, which reuses the world construction, capture and oracles of this module.)

For every generated invocation the plugin

1. builds the real objects (Workload / TaskGraph / Task in generated states,
   WorkerPools with RUNNING tasks really placed) from a JSON *world spec*;
2. runs the REAL `ILPScheduler.schedule()` with the Gurobi model captured at
   `optimize()` (subclass of `gurobipy.Model` installed in the module under
   test) and with the live cluster / task state snapshotted before and after;
3. derives the Lean instance from what the model-building code was really given
   (`_add_variables` arguments), pipes it through the Lean driver (`gen inst`,
   `decode inst σ_solver`, `sat σ_solver (gen inst)`, brute-force optima);
4. compares the captured constraint system with `gen inst` term by term
   (canonicalised: like terms merged, constants moved right, everything sorted,
   variables labelled `name#k`) and the returned Placements with `decode`;
5. runs the model-independent oracle of the property on the real Placements, and
   for C11 asks Gurobi for a feasible point of the CAPTURED REAL model that
   violates precedence; for C14 compares goodput with an independent brute force.

`run` returns the list of correspondence disagreements (empty = model and code
agree).  Oracle failures are reported through `chk.violation`.
"""
from __future__ import annotations

import itertools
import json
import logging
import random as _pyrandom
import sys
import time as _time
from copy import deepcopy

from harness import common
from harness.planners import _worlds

NAME = "ilp"
PROPS = {"C10", "C11", "C12", "C14"}
SUITE = "mip_ilp"

# --------------------------------------------------------------------------
# Real-code access
# --------------------------------------------------------------------------

_R = {}


def _repo():
    """Import the real implementation once (from $ERDOS_REPO or /repo)."""
    if _R:
        return _R
    common.use_repo()
    logging.disable(logging.CRITICAL)
    import gurobipy as gp
    from gurobipy import GRB

    gp.setParam("OutputFlag", 0)  # silence "Set parameter ..." chatter; not a model parameter

    import schedulers.ilp_scheduler as ilp_mod
    from schedulers.ilp_scheduler import ILPScheduler
    from utils import EventTime
    from workers import Worker, WorkerPool, WorkerPools
    from workload import (
        BatchStrategy,
        ExecutionStrategies,
        ExecutionStrategy,
        Job,
        Placement,
        Resource,
        Resources,
        Task,
        TaskGraph,
        TaskState,
        Workload,
        WorkProfile,
    )

    base_model = gp.Model

    class CapModel(base_model):
        """gurobipy.Model that records itself when optimize() is called."""

        captured = []

        def optimize(self, *a, **k):
            self.update()
            CapModel.captured.append(self)
            return base_model.optimize(self, *a, **k)

    _R.update(locals())
    return _R


def US(t):
    R = _repo()
    return R["EventTime"](int(t), R["EventTime"].Unit.US)


class World:
    pass


def build_world(spec: dict) -> World:
    """Construct the real objects described by `spec` (see `gen_world`)."""
    R = _repo()
    # The repo draws uuids from the global `random`; keep runs reproducible.
    _pyrandom.seed(spec.get("uuid_seed", 0))
    Resource, Resources = R["Resource"], R["Resources"]
    w = World()
    w.spec = spec
    w.now = spec["now"]
    w.workers = []  # global order = ILP worker index order
    pools = []
    for p in spec["pools"]:
        ws = []
        for wk in p["workers"]:
            res = Resources({Resource(name=n): q for n, q in wk["res"]})
            worker = R["Worker"](name=wk["name"], resources=res)
            ws.append(worker)
        pool = R["WorkerPool"](name=p["name"], workers=ws)
        pools.append(pool)
        for worker in ws:
            w.workers.append((worker, pool))
    w.pools = pools
    w.worker_pools = R["WorkerPools"](pools)
    w.tasks = {}  # unique name -> Task
    w.task_list = []
    graphs = {}

    def mk_strategies(strats):
        return R["ExecutionStrategies"](
            [
                R["ExecutionStrategy"](
                    resources=Resources(resource_vector={Resource(name=n, _id="any"): q for n, q in s["req"]}),
                    batch_size=s["batch"],
                    runtime=_worlds.et(R, s["runtime"], s.get("rt_ms")),  # mixed-unit flavour: some runtimes in ms
                )
                for s in strats
            ]
        )

    # batching worlds: WorkProfiles shared by several tasks (spec["profiles"]: name -> strategies,
    # a task names its profile in t["profile"]); BatchStrategy objects of earlier invocations are
    # shared by the members of one earlier batch (t["prev"]["batch"] = batch label)
    w.profiles = {}
    for pname, strats in spec.get("profiles", {}).items():
        w.profiles[pname] = R["WorkProfile"](name=pname, execution_strategies=mk_strategies(strats))
    w.prev_batches = {}
    for g in spec["graphs"]:
        tasks = []
        for t in g["tasks"]:
            if t.get("profile") is not None:
                profile = w.profiles[t["profile"]]
            else:
                profile = R["WorkProfile"](name=f"{t['name']}_{g['name']}_profile", execution_strategies=mk_strategies(t["strats"]))
            task = R["Task"](
                name=t["name"],
                task_graph=g["name"],
                job=R["Job"](name=t["name"], profile=profile),
                deadline=_worlds.et(R, t["deadline"], t.get("dl_ms")),
                timestamp=t["ts"],
            )
            tasks.append(task)
        # node insertion order of the real graph = declaration order g["decl"] (default: index order)
        graphs[g["name"]] = R["TaskGraph"](name=g["name"], tasks=_worlds.children_mapping(g, tasks))
        for t, task in zip(g["tasks"], tasks):
            w.tasks[task.unique_name] = task
            w.task_list.append((t, task))
    w.workload = R["Workload"].from_task_graphs(graphs)
    # States.
    for t, task in w.task_list:
        st = t["state"]
        if st == "VIRTUAL":
            if t.get("release") is not None:
                task._release_time = _worlds.et(R, t["release"], t.get("rel_ms"))  # estimated release of a not yet released task
            continue
        task.release(_worlds.et(R, t["release"], t.get("rel_ms")))
        if st == "RELEASED":
            continue
        prev = t["prev"]
        worker, pool = w.workers[prev["w"]]
        strategy = task.available_execution_strategies[prev["s"]]
        if prev.get("batch") is not None:
            # placed by an earlier batching invocation: the members of that batch share one BatchStrategy
            key = (t.get("profile"), prev["s"], prev["batch"])
            if key not in w.prev_batches:
                w.prev_batches[key] = R["BatchStrategy"](execution_strategy=strategy)
            strategy = w.prev_batches[key]
        placement = R["Placement"].create_task_placement(
            task=task,
            placement_time=US(prev["time"]),
            worker_pool_id=pool.id,
            worker_id=worker.id,
            execution_strategy=strategy,
        )
        task.schedule(US(prev["sched_at"]), placement)
        if st == "SCHEDULED":
            continue
        task.start(US(prev["time"]))
        if st == "RUNNING":
            ok = pool.place_task(task, execution_strategy=strategy, worker_id=worker.id)
            if not ok:
                raise RuntimeError("generator produced an over-subscribed RUNNING set")
            task.update_remaining_time(US(prev["remaining"]))
            continue
        if st == "COMPLETED":
            task.update_remaining_time(US(0))
            task.finish(US(prev["finish"]))
            continue
        raise ValueError(st)
    f = spec["flags"]
    w.scheduler = R["ILPScheduler"](
        preemptive=False,
        runtime=US(0),
        lookahead=US(f["lookahead"]),
        enforce_deadlines=f["enforce_deadlines"],
        retract_schedules=f["retract"],
        release_taskgraphs=f["release_taskgraphs"],
        goal=f["goal"],
        batching=bool(f.get("batching", False)),
    )
    w.scheduler._allowed_to_miss_deadlines = set(spec.get("allowed0", []))
    if spec.get("warmup"):
        # warm-scheduler flavour: the same scheduler object has already been invoked once, on an unrelated world
        # (its persistent `_allowed_to_miss_deadlines` is read at the judged call and handed to the model)
        _worlds.run_warmup(R, w.scheduler, spec["warmup"])
    return w


def snapshot(w: World):
    """Every live getter the property talks about: cluster occupancy and task fields."""
    R = _repo()
    cl = []
    for worker, pool in w.workers:
        res = worker.resources
        cl.append(
            (
                worker.name,
                sorted((r.name, r.id == "any", q) for r, q in res.resources),
                sorted((n, res.get_available_quantity(R["Resource"](name=n, _id="any"))) for n in {r.name for r, _ in res.resources}),
                sorted(t.unique_name for t in worker.get_placed_tasks()),
            )
        )
    ts = []
    for _, task in w.task_list:
        cp = task.current_placement
        ts.append(
            (
                task.unique_name,
                str(task.state),
                task.release_time.to(R["EventTime"].Unit.US).time,
                task.deadline.to(R["EventTime"].Unit.US).time,
                None if cp is None else (id(cp), cp.placement_time.time, cp.worker_id, id(cp.execution_strategy)),
                None if task._remaining_time is None else task._remaining_time.time,
                task.start_time.time,
                task.worker_pool_id,
                len(task.available_execution_strategies),
            )
        )
    return (cl, ts)


def real_schedule(w: World) -> dict:
    """Run the real schedule() with capture. Returns everything observed."""
    R = _repo()
    ilp_mod, CapModel = R["ilp_mod"], R["CapModel"]
    CapModel.captured.clear()
    rec = {}
    sched = w.scheduler
    orig_add = sched._add_variables
    orig_get = w.workload.get_schedulable_tasks

    def get_wrapper(*a, **k):
        out = orig_get(*a, **k)
        rec["offered"] = list(out)
        return out

    def add_wrapper(sim_time, optimizer, workload, tasks, workers):
        rec["tasks"] = list(tasks)
        rec["workers"] = dict(workers)
        rec["allowed0"] = sorted(sched._allowed_to_miss_deadlines)
        return orig_add(sim_time, optimizer, workload, tasks, workers)

    orig_cb = sched._create_batch_task_variables
    rec["profile_calls"] = []

    def cb_wrapper(sim_time, optimizer, profile, tasks, workers):
        # batching mode: the per-profile task SET is iterated in hash order; record that order
        # (iterating an unmodified set twice yields the same order) and the BatchTasks created
        call = {"profile": profile, "order": list(tasks), "batches": None}
        rec["profile_calls"].append(call)
        out = orig_cb(sim_time, optimizer, profile, tasks, workers)
        call["batches"] = [(name, list(v.task.tasks), v.task._strategy, v) for name, v in out.items()]
        return out

    w.workload.get_schedulable_tasks = get_wrapper
    sched._add_variables = add_wrapper
    sched._create_batch_task_variables = cb_wrapper
    saved_model = ilp_mod.gp.Model
    ilp_mod.gp.Model = CapModel
    before = snapshot(w)
    err = None
    placements = None
    try:
        placements = sched.schedule(US(w.now), w.workload, w.worker_pools)
    except Exception as e:  # an exception is an outcome
        err = type(e).__name__ + ": " + str(e)[:200]
    finally:
        ilp_mod.gp.Model = saved_model
        del w.workload.get_schedulable_tasks
        del sched._add_variables
        del sched._create_batch_task_variables
    after = snapshot(w)
    rec["allowed_after"] = sorted(sched._allowed_to_miss_deadlines)
    rec.update(
        placements=placements,
        err=err,
        pure=(before == after),
        model=CapModel.captured[-1] if CapModel.captured else None,
        n_models=len(CapModel.captured),
    )
    return rec


# --------------------------------------------------------------------------
# Lean instance + canonical forms
# --------------------------------------------------------------------------


def _t(et):
    R = _repo()
    return et.to(R["EventTime"].Unit.US).time


def extract_inst(w: World, rec: dict) -> dict:
    """The Lean instance, read from what `_add_variables` was really given."""
    tasks = rec["tasks"]
    workers = rec["workers"]  # index (1-based) -> Worker
    widx = {wk.id: i for i, (k, wk) in enumerate(workers.items())}
    pool_of = {wk.id: pool.name for wk, pool in w.workers}
    jt = []
    for task in tasks:
        strats = list(task.available_execution_strategies)
        prevW = prevS = 0
        if str(task.state) == "TaskState.RUNNING" or task.state.name == "RUNNING":
            cp = task.current_placement
            prevW = widx[cp.worker_id]
            cand = [i for i, s in enumerate(strats) if s is cp.execution_strategy]
            prevS = cand[0] if cand else len(strats)
        jt.append(
            {
                "uniq": task.unique_name,
                "name": task.name,
                "ts": task.timestamp,
                "graph": task.task_graph,
                "state": task.state.name,
                "release": _t(task.release_time),
                "deadline": _t(task.deadline),
                "strats": [
                    {"batch": s.batch_size, "runtime": _t(s.runtime), "req": [[r.name, q] for r, q in s.resources.resources]}
                    for s in strats
                ],
                "prevW": prevW,
                "prevS": prevS,
            }
        )
    jw = [
        {"name": wk.name, "pool": pool_of[wk.id], "res": [[r.name, q] for r, q in wk.resources.resources]}
        for _, wk in workers.items()
    ]
    nodes, edges = [], []
    for gname in dict.fromkeys([t.task_graph for t in tasks] + [t.task_graph for _, t in w.task_list]):
        g = w.workload.get_task_graph(gname)
        for n in g.get_nodes():
            nodes.append({"uniq": n.unique_name, "name": n.name, "ts": n.timestamp, "graph": n.task_graph, "state": n.state.name})
            for c in g.get_children(n):
                edges.append([n.unique_name, c.unique_name])
    f = w.spec["flags"]
    return {
        "now": w.now,
        "workers": jw,
        "tasks": jt,
        "nOffered": len(rec["offered"]),
        "nodes": nodes,
        "edges": edges,
        "enforce_deadlines": f["enforce_deadlines"],
        "retract": f["retract"],
        "release_taskgraphs": f["release_taskgraphs"],
        "goal_slack": f["goal"] == "max_slack",
        "allowed0": rec["allowed0"],
    }


def _num(x):
    """Gurobi float -> int (model coefficients are integral by construction)."""
    if x is None:
        return None
    if x >= 1e30:
        return None
    if x <= -1e30:
        return None
    r = round(x)
    if abs(x - r) > 1e-9:
        raise common.LeanFailure(f"non-integral coefficient {x}")
    return int(r)


def gurobi_labels(m):
    seen, out = {}, []
    for v in m.getVars():
        n = v.VarName
        k = seen.get(n, 0)
        seen[n] = k + 1
        out.append(f"{n}#{k}")
    return out


def _canon_expr(lin, quad, const):
    L, Q = {}, {}
    for c, v in lin:
        L[v] = L.get(v, 0) + c
    for c, a, b in quad:
        key = tuple(sorted((a, b)))
        Q[key] = Q.get(key, 0) + c
    return (
        sorted([v, c] for v, c in L.items() if c != 0),
        sorted([k[0], k[1], c] for k, c in Q.items() if c != 0),
        const,
    )


def canon_gurobi(m) -> dict:
    """Canonical form of the captured Gurobi model."""
    R = _repo()
    GRB = R["GRB"]
    labs = gurobi_labels(m)
    lab = {v.index: labs[i] for i, v in enumerate(m.getVars())}

    def lin_terms(e):
        return [(_num(e.getCoeff(i)), lab[e.getVar(i).index]) for i in range(e.size())]

    vars_ = []
    for v in m.getVars():
        vars_.append([lab[v.index], v.VType, _num(v.LB), _num(v.UB)])
    cons = []
    for c in m.getConstrs():
        r = m.getRow(c)
        l, q, k = _canon_expr(lin_terms(r), [], _num(r.getConstant()))
        cons.append(["lin", c.ConstrName, l, q, c.Sense, _num(c.RHS) - k])
    for qc in m.getQConstrs():
        r = m.getQCRow(qc)
        le = r.getLinExpr()
        quad = [(_num(r.getCoeff(i)), lab[r.getVar1(i).index], lab[r.getVar2(i).index]) for i in range(r.size())]
        l, q, k = _canon_expr(lin_terms(le), quad, _num(le.getConstant()))
        cons.append(["lin", qc.QCName, l, q, qc.QCSense, _num(qc.QCRHS) - k])
    for g in m.getGenConstrs():
        if g.GenConstrType == GRB.GENCONSTR_INDICATOR:
            b, val, e, sense, rhs = m.getGenConstrIndicator(g)
            l, q, k = _canon_expr(lin_terms(e), [], _num(e.getConstant()))
            cons.append(["ind", g.GenConstrName, lab[b.index], int(val), l, sense, _num(rhs) - k])
        elif g.GenConstrType == GRB.GENCONSTR_AND:
            r, vs = m.getGenConstrAnd(g)
            cons.append(["and", g.GenConstrName, lab[r.index], sorted(lab[v.index] for v in vs)])
        else:
            cons.append(["other", g.GenConstrName, int(g.GenConstrType)])
    o = m.getObjective()
    if hasattr(o, "getLinExpr"):
        le = o.getLinExpr()
        quad = [(_num(o.getCoeff(i)), lab[o.getVar1(i).index], lab[o.getVar2(i).index]) for i in range(o.size())]
        obj = _canon_expr(lin_terms(le), quad, _num(le.getConstant()))
    else:
        obj = _canon_expr(lin_terms(o), [], _num(o.getConstant()))
    return {
        "vars": sorted(vars_),
        "constrs": sorted(json.dumps(c) for c in cons),
        "obj": list(obj),
        "sense": int(m.ModelSense),
    }


def canon_lean(reply: dict) -> dict:
    """Canonical form of `gen inst` as rendered by the Lean driver."""

    def expr(e):
        return _canon_expr([(c, v) for c, v in e["l"]["t"]], [(c, a, b) for c, a, b in e["q"]], e["l"]["c"])

    vars_ = []
    for v in reply["vars"]:
        if v["vtype"] == "B":
            vars_.append([v["name"], "B", 0, 1])
        else:
            vars_.append([v["name"], "I", v["lb"], v["ub"]])
    cons = []
    for c in reply["constrs"]:
        if c["kind"] == "lin":
            l, q, k = expr(c["e"])
            cons.append(["lin", c["name"], l, q, c["sense"], c["rhs"] - k])
        elif c["kind"] == "ind":
            l, q, k = expr(c["e"])
            cons.append(["ind", c["name"], c["b"], c["val"], l, c["sense"], c["rhs"] - k])
        elif c["kind"] == "and":
            cons.append(["and", c["name"], c["r"], sorted(c["args"])])
    return {
        "vars": sorted(vars_),
        "constrs": sorted(json.dumps(c) for c in cons),
        "obj": list(expr(reply["obj"])),
        "sense": -1,
    }


def diff_models(a: dict, b: dict) -> list[str]:
    """a = captured real model, b = Lean gen. Returns human-readable differences."""
    out = []
    if a["sense"] != b["sense"]:
        out.append(f"objective sense real={a['sense']} model={b['sense']}")
    if a["obj"] != b["obj"]:
        out.append(f"objective real={a['obj']} model={b['obj']}")
    if a["vars"] != b["vars"]:
        sa, sb = {json.dumps(v) for v in a["vars"]}, {json.dumps(v) for v in b["vars"]}
        out.append(f"variables only-real={sorted(sa - sb)[:4]} only-model={sorted(sb - sa)[:4]}")
    if a["constrs"] != b["constrs"]:
        from collections import Counter

        ca, cb = Counter(a["constrs"]), Counter(b["constrs"])
        out.append(f"constraints only-real={sorted((ca - cb).elements())[:3]} only-model={sorted((cb - ca).elements())[:3]}")
    return out


def real_decisions(w: World, rec: dict) -> list[dict]:
    """Returned Placements in canonical form (order kept)."""
    widx = {wk.id: i for i, (k, wk) in enumerate(rec["workers"].items())} if "workers" in rec else {}
    pool_name = {pool.id: pool.name for pool in w.pools}
    out = []
    for p in rec["placements"]:
        task = p.task
        if p.is_placed():
            strats = list(task.available_execution_strategies)
            sidx = [i for i, s in enumerate(strats) if s is p.execution_strategy]
            out.append(
                {
                    "task": task.unique_name,
                    "placed": True,
                    "worker": widx.get(p.worker_id, -1),
                    "pool": pool_name.get(p.worker_pool_id, "?"),
                    "strategy": sidx[0] if sidx else -1,
                    "time": _t(p.placement_time),
                }
            )
        else:
            out.append({"task": task.unique_name, "placed": False})
    return out


def solver_sigma(m) -> tuple[dict, list[str]]:
    labs = gurobi_labels(m)
    sig, bad = {}, []
    for lab, v in zip(labs, m.getVars()):
        x = v.X
        r = round(x)
        if abs(x - r) > 1e-6:
            bad.append(f"{lab}={x}")
        sig[lab] = int(r)
    return sig, bad


# --------------------------------------------------------------------------
# Model-independent oracles (real objects only)
# --------------------------------------------------------------------------


def _intervals(w: World, rec: dict):
    """Planned occupancy [start, end) per (worker id) after this decision: tasks placed by
    the decision, RUNNING tasks, and SCHEDULED tasks the decision did not re-decide."""
    decided = {p.task.unique_name: p for p in rec["placements"]}
    out = []
    for _, task in w.task_list:
        st = task.state.name
        if task.unique_name in decided:
            p = decided[task.unique_name]
            if p.is_placed():
                out.append((task, p.worker_id, _t(p.placement_time), _t(p.placement_time) + _t(p.execution_strategy.runtime), p.execution_strategy))
        elif st == "RUNNING":
            cp = task.current_placement
            out.append((task, cp.worker_id, w.now, w.now + _t(task.remaining_time), cp.execution_strategy))
        elif st == "SCHEDULED":
            cp = task.current_placement
            s0 = max(_t(cp.placement_time), w.now)  # a due start happens now at the earliest
            out.append((task, cp.worker_id, s0, s0 + _t(cp.execution_strategy.runtime), cp.execution_strategy))
    return out


def oracle_c10(w: World, rec: dict) -> list[str]:
    """Complete, feasible, side-effect-free decision (planner clauses)."""
    bad = []
    if rec["err"]:
        cls = rec["err"].split(":")[0]
        if cls == "AttributeError" and "'int' object has no attribute 'Start'" in rec["err"]:
            return ["schedule() raised AttributeError seeding a SCHEDULED task that has an incompatible (worker, strategy) pair"]
        return [f"schedule() raised {cls}"]
    f = w.spec["flags"]
    pls = list(rec["placements"])
    names = [p.task.unique_name for p in pls]
    if len(set(names)) != len(names):
        bad.append("two decisions for one task")
    offered = {t.unique_name for t in rec.get("offered", [])}
    for p in pls:
        t = p.task
        st = t.state.name
        if st == "RUNNING" or st == "COMPLETED":
            bad.append(f"decision for a {st} task")
        if t.unique_name not in offered and not (st == "SCHEDULED"):
            bad.append("decision for a task neither offered nor previously scheduled")
    for u in offered:
        t = w.tasks[u]
        if t.state.name != "SCHEDULED" and u not in names:
            bad.append("offered task without decision")
    pool_ids = {pool.id: pool for pool in w.pools}
    for p in pls:
        if not p.is_placed():
            continue
        t = p.task
        pool = pool_ids.get(p.worker_pool_id)
        if pool is None:
            bad.append("unknown pool")
            continue
        if p.worker_id is not None and p.worker_id not in {wk.id for wk in pool.workers}:
            bad.append("worker not in the named pool")
        if p.execution_strategy is not None and not any(s is p.execution_strategy for s in t.available_execution_strategies):
            # a batching planner reports a fresh BatchStrategy: it must be a copy of one of the task's own strategies
            R = _repo()
            if not (
                isinstance(p.execution_strategy, R["BatchStrategy"])
                and any(R["ExecutionStrategy"].__eq__(s, p.execution_strategy) for s in t.available_execution_strategies)
            ):
                bad.append("strategy does not belong to the task")
        if _t(p.placement_time) < w.now:
            bad.append("placement time before now")
        if not t.release_time.is_invalid() and t.state.name != "VIRTUAL" and _t(p.placement_time) < _t(t.release_time):
            bad.append("placement time before the known release")
    # joint feasibility at every planned instant (half-open occupancy: the simulator's own)
    iv = _intervals(w, rec)
    cap = {}
    for wk, pool in w.workers:
        tot = {}
        for r, q in wk.resources.resources:
            tot[r.name] = tot.get(r.name, 0) + q
        cap[wk.id] = tot
    BatchStrategy = _repo()["BatchStrategy"]
    # a batch (the tasks sharing one BatchStrategy object) is one unit of work: same worker, same
    # start, at most batch_size members, and its resources are held once (Worker.place_task)
    groups = {}
    for t, wid, s, e, strat in iv:
        if isinstance(strat, BatchStrategy):
            groups.setdefault(id(strat), []).append((t, wid, s, strat))
    for members in groups.values():
        if len({(wid, s) for _, wid, s, _ in members}) > 1:
            bad.append("members of one batch placed on different workers or at different times")
        if len(members) > members[0][3].batch_size:
            bad.append("more tasks in one batch than its batch size")
    for _, wid, s0, _e0, _ in iv:
        for wk_id, tot in cap.items():
            use = {}
            counted = set()
            for t, wid2, s, e, strat in iv:
                if wid2 == wk_id and s <= s0 < e:
                    if isinstance(strat, BatchStrategy):
                        if id(strat) in counted:
                            continue  # a batch is counted once
                        counted.add(id(strat))
                    for r, q in strat.resources.resources:
                        use[r.name] = use.get(r.name, 0) + q
            for rn, q in use.items():
                if q > tot.get(rn, 0):
                    bad.append("capacity exceeded at a planned instant")
    if not rec["pure"]:
        bad.append("live cluster or task state changed by schedule()")
    return sorted(set(bad))


def oracle_c11(w: World, rec: dict) -> list[str]:
    bad = []
    if rec["err"]:
        return []
    decided = {p.task.unique_name: p for p in rec["placements"]}
    for p in rec["placements"]:
        if not p.is_placed():
            continue
        c = p.task
        g = w.workload.get_task_graph(c.task_graph)
        for par in g.get_parents(c):
            st = par.state.name
            if par.unique_name in decided:
                pp = decided[par.unique_name]
                if not pp.is_placed():
                    bad.append("child placed while a parent decided in the same call is unplaced")
                elif _t(p.placement_time) < _t(pp.placement_time) + _t(pp.execution_strategy.runtime):
                    bad.append("child starts before parent start + chosen runtime")
            elif st == "RUNNING":
                if _t(p.placement_time) < w.now + _t(par.remaining_time):
                    bad.append("child starts before the expected finish of a RUNNING parent")
            elif st == "SCHEDULED":
                cp = par.current_placement
                if _t(p.placement_time) < max(_t(cp.placement_time), w.now) + _t(par.remaining_time):
                    bad.append("child starts before the expected finish of a SCHEDULED parent")
    return sorted(set(bad))


def oracle_c12(w: World, rec: dict) -> list[str]:
    bad = []
    f = w.spec["flags"]
    if rec["err"] or not f["enforce_deadlines"] or f["release_taskgraphs"]:
        return []
    for p in rec["placements"]:
        t = p.task
        fastest = min(_t(s.runtime) for s in t.available_execution_strategies)
        if p.is_placed():
            if _t(p.placement_time) + _t(p.execution_strategy.runtime) > _t(t.deadline):
                bad.append("placed task would finish after its deadline")
            if _t(t.deadline) < w.now + fastest:
                bad.append("hopeless task placed")
    return sorted(set(bad))


# ---- C14: independent brute force over the ILP's own time model -----------


def _plan_space(w: World, rec: dict):
    """Tasks with variables, their candidate placements and everything the validity test
    needs, computed from the real objects only."""
    f = w.spec["flags"]
    tasks = rec["tasks"]
    workers = list(rec["workers"].values())
    caps = []
    for wk in workers:
        tot = {}
        for r, q in wk.resources.resources:
            tot[r.name] = tot.get(r.name, 0) + q
        caps.append(tot)
    names = {t.unique_name for t in tasks}
    info = []
    for t in tasks:
        g = w.workload.get_task_graph(t.task_graph)
        strats = []
        for s in t.available_execution_strategies:
            req = {}
            for r, q in s.resources.resources:
                req[r.name] = req.get(r.name, 0) + q
            strats.append((_t(s.runtime), req))
        info.append(
            {
                "task": t,
                "running": t.state.name == "RUNNING",
                "must": t.state.name == "SCHEDULED" and not f["retract"],
                "lb": max(w.now + 1, _t(t.release_time)),
                "deadline": _t(t.deadline),
                "enforce": f["enforce_deadlines"] and not (f["release_taskgraphs"] and t.task_graph in rec["allowed_after"]),
                "strats": strats,
                "parents": [i for i, p in enumerate(tasks) if any(p is q for q in g.get_parents(t))],
                "reward": (g.is_sink_task(t) if f["release_taskgraphs"] else not any(c.unique_name in names for c in g.get_children(t))),
                "graph": t.task_graph,
            }
        )
    return tasks, workers, caps, info


def brute_force_goodput(w: World, rec: dict, as_coded=False, limit=600000):
    """Maximum number of graphs whose reward tasks are all placed, over all plans that respect
    release, deadline, precedence and per-instant capacity (closed occupancy [s, s+r], child
    after parent finish + 1, starts >= max(now+1, release)): exhaustive search.  None = no
    valid plan at all.

    `as_coded=True` instead applies the rules the ILP really encodes (pairwise-overlap
    capacity rows, phantom start rows of unplaced tasks, all-graph-parents count); it is used
    only to *classify* a loss of goodput as one of the known defect classes."""
    f = w.spec["flags"]
    tasks, workers, caps, info = _plan_space(w, rec)
    widx = {wk.id: i for i, wk in enumerate(workers)}
    n = len(tasks)
    hor = max([w.now + 1] + [t["deadline"] for t in info] + [t["lb"] for t in info]) + sum(
        max(r + 1 for r, _ in t["strats"]) for t in info
    )
    cands = []
    for i, t in enumerate(info):
        if t["running"]:
            cp = t["task"].current_placement
            si = [k for k, s in enumerate(t["task"].available_execution_strategies) if s is cp.execution_strategy][0]
            cands.append([(widx[cp.worker_id], si, w.now)])
            continue
        c = [None]
        for wi, cap in enumerate(caps):
            for si, (r, req) in enumerate(t["strats"]):
                if all(cap.get(rn, 0) >= q for rn, q in req.items()):
                    hi = t["deadline"] - r if t["enforce"] else hor
                    for s in range(t["lb"], hi + 1):
                        c.append((wi, si, s))
        cands.append(c)
    graphs = list(dict.fromkeys(t["graph"] for t in info))
    dep = [[False] * n for _ in range(n)]
    nparents = []
    for i, t in enumerate(info):
        g = w.workload.get_task_graph(t["graph"])
        nparents.append(len(set(g.get_parents(t["task"]))))
        for j, u in enumerate(info):
            if i != j and t["graph"] == u["graph"]:
                dep[i][j] = g.are_dependent(t["task"], u["task"])
    best = [-1]
    count = [0]
    plan = [None] * n

    def fin(i, p):
        return p[2] + info[i]["strats"][p[1]][0]

    def cap_instant(k):
        for j in range(k + 1):
            if plan[j] is None:
                continue
            tau = plan[j][2]
            use = {}
            for i in range(k + 1):
                p = plan[i]
                if p is None:
                    continue
                if p[2] <= tau <= fin(i, p):
                    for rn, q in info[i]["strats"][p[1]][1].items():
                        use[(p[0], rn)] = use.get((p[0], rn), 0) + q
            for (wi, rn), q in use.items():
                if q > caps[wi].get(rn, 0):
                    return False
        return True

    def cap_pairwise(k):
        for i in range(k + 1):
            p1 = plan[i]
            if p1 is None:
                continue
            for wi in range(len(caps)):
                if info[i]["running"] and wi != p1[0]:
                    continue
                use = {}
                if p1[0] == wi:
                    for rn, q in info[i]["strats"][p1[1]][1].items():
                        use[rn] = use.get(rn, 0) + q
                for j in range(k + 1):
                    p2 = plan[j]
                    if j == i or p2 is None or p2[0] != wi or dep[i][j]:
                        continue
                    if p2[2] <= fin(i, p1) and p1[2] <= fin(j, p2):
                        for rn, q in info[j]["strats"][p2[1]][1].items():
                            use[rn] = use.get(rn, 0) + q
                for rn, q in use.items():
                    # rows exist only for the worker's own resource types
                    if rn in caps[wi] and q > caps[wi][rn]:
                        return False
        return True

    cap_ok = cap_pairwise if as_coded else cap_instant

    def phantom_ok():
        st = [plan[i][2] if plan[i] is not None else info[i]["lb"] for i in range(n)]
        for _ in range(n):
            for c in range(n):
                if plan[c] is not None:
                    continue
                for pi in info[c]["parents"]:
                    b = st[pi] + (info[pi]["strats"][plan[pi][1]][0] + 1 if plan[pi] is not None else 0)
                    st[c] = max(st[c], b)
        for c in range(n):
            if info[c]["running"]:
                continue
            if plan[c] is None and info[c]["enforce"] and st[c] > info[c]["deadline"]:
                return False
            for pi in info[c]["parents"]:
                b = st[pi] + (info[pi]["strats"][plan[pi][1]][0] + 1 if plan[pi] is not None else 0)
                if b > st[c]:
                    return False
        return True

    def leaf_ok():
        for i, t in enumerate(info):
            p = plan[i]
            if t["running"]:
                continue
            if p is None:
                if t["must"]:
                    return False
                continue
            for pi in t["parents"]:
                pp = plan[pi]
                if pp is None:
                    return False
                if p[2] < fin(pi, pp) + 1:
                    return False
            if as_coded and t["parents"] and len(t["parents"]) != nparents[i]:
                return False
        if as_coded and not phantom_ok():
            return False
        return True

    def rec_(k):
        count[0] += 1
        if count[0] > limit:
            raise TimeoutError("brute force too large")
        if k == n:
            if leaf_ok():
                gp_ = 0
                for g in graphs:
                    if all(plan[i] is not None for i, t in enumerate(info) if t["graph"] == g and t["reward"]):
                        gp_ += 1
                best[0] = max(best[0], gp_)
            return
        for c in cands[k]:
            plan[k] = c
            if c is None or cap_ok(k):
                rec_(k + 1)
        plan[k] = None

    rec_(0)
    return None if best[0] < 0 else best[0]


def c14_verdict(w: World, rec: dict):
    """Compare the goodput of the real decision with the exhaustive optimum.
    Returns (got, best, signature or None)."""
    f = w.spec["flags"]
    tasks, workers, caps, info = _plan_space(w, rec)
    got = real_goodput(w, rec) if rec["placements"] is not None else 0
    if not all(t["enforce"] for t in info if not t["running"]):
        return got, None, None  # graphs allowed to miss deadlines: goodput is not defined
    best = brute_force_goodput(w, rec)
    if best is None or got >= best:
        return got, best, None
    coded = brute_force_goodput(w, rec, as_coded=True)
    # What the as-coded reading predicts for the real decision: its optimum when it has a
    # feasible point; otherwise the solver finds nothing, every offered task is returned
    # unplaced, and only the graphs whose reward tasks are all RUNNING still count.
    baseline = 0
    for g in dict.fromkeys(t["graph"] for t in info):
        if all(t["running"] for t in info if t["graph"] == g and t["reward"]):
            baseline += 1
    predicted = coded if coded is not None else baseline
    explained = got == predicted and (coded is None) == (not rec["solved"])
    hopeless = [t for t in info if not t["running"] and t["deadline"] < t["lb"]]
    nonvar_parent = False
    for i, t in enumerate(info):
        g = w.workload.get_task_graph(t["graph"])
        if not t["running"] and t["parents"] and len(t["parents"]) != len(set(g.get_parents(t["task"]))):
            nonvar_parent = True
    if not explained:
        why = "not explained by any known defect class"
    elif not rec["solved"] and hopeless:
        why = "hopeless task (deadline < max(now+1, release)) makes the whole model infeasible, nothing is placed"
    elif not rec["solved"]:
        why = "start rows of a task that cannot be placed make the whole model infeasible, nothing is placed"
    elif nonvar_parent and brute_force_goodput_no_count(w, rec) > got:
        why = "all-parents-placed row counts parents without variables, the child can never be placed"
    else:
        why = "pairwise-overlap capacity rows exclude a plan that is feasible at every instant"
    return got, best, f"ilp C14: goodput below feasible optimum: {why}"


def brute_force_goodput_no_count(w: World, rec: dict) -> int:
    """As-coded optimum with the all-parents count rule switched off (classification only)."""
    tasks, workers, caps, info = _plan_space(w, rec)
    saved = [list(t["parents"]) for t in info]
    # emulate by pretending every graph parent without variables does not exist
    orig = w.workload.get_task_graph

    class _G:
        def __init__(self, g, names):
            self._g, self._names = g, names

        def get_parents(self, t):
            return [p for p in self._g.get_parents(t) if p.unique_name in self._names]

        def __getattr__(self, k):
            return getattr(self._g, k)

    names = {t.unique_name for t in tasks}
    w.workload.get_task_graph = lambda n: _G(orig(n), names)
    try:
        r = brute_force_goodput(w, rec, as_coded=True)
    finally:
        del w.workload.get_task_graph
    return -1 if r is None else r


def real_goodput(w: World, rec: dict):
    tasks, workers, caps, info = _plan_space(w, rec)
    decided = {p.task.unique_name: p for p in rec["placements"]}
    graphs = list(dict.fromkeys(t["graph"] for t in info))
    gp_ = 0
    for g in graphs:
        ok = True
        for t in info:
            if t["graph"] == g and t["reward"]:
                if t["running"]:
                    continue
                p = decided.get(t["task"].unique_name)
                if p is None or not p.is_placed():
                    ok = False
        gp_ += ok
    return gp_


# ---- C11: adversarial query on the captured real model ---------------------


def adversarial_precedence(w: World, rec: dict) -> list[str]:
    """Ask Gurobi for a feasible point of the CAPTURED REAL model in which a child is placed
    while a parent with variables is not, or starts before parent start + chosen runtime (+0:
    the property's bound; the model's own bound +1 is part of the constraint comparison)."""
    R = _repo()
    GRB, gp = R["GRB"], R["gp"]
    m = rec["model"]
    tasks = rec["tasks"]
    found = []
    labs = gurobi_labels(m)

    def var_index(prefix_name):
        return [i for i, l in enumerate(labs) if l.rsplit("#", 1)[0] == prefix_name]

    def x_indices(t):
        pre = f"{t.unique_name}_placed_on_"
        return [i for i, l in enumerate(labs) if l.startswith(pre)]

    def x_runtime(label):
        return int(label.rsplit("#", 1)[0].rsplit("_runtime_", 1)[1])

    for c in tasks:
        if c.state.name == "RUNNING":
            continue
        g = w.workload.get_task_graph(c.task_graph)
        cx = x_indices(c)
        cs = var_index(f"{c.unique_name}_start")
        if not cx or not cs:
            continue
        for par in g.get_parents(c):
            if not any(par is t for t in tasks) and par.state.name not in ("SCHEDULED", "RUNNING"):
                continue
            mm = m.copy()
            mm.Params.LogToConsole = 0
            mm.Params.MIPGap = 0
            mm.Params.Threads = 1
            vs = mm.getVars()
            mm.addConstr(gp.quicksum(vs[i] for i in cx) == 1)
            if par.state.name == "RUNNING" or not any(par is t for t in tasks):
                # a parent the model treats as fixed (RUNNING) or does not see at all (SCHEDULED
                # and not re-offered): the child must not start before its expected finish
                if par.state.name == "RUNNING":
                    bound = w.now + _t(par.remaining_time)
                else:
                    bound = max(_t(par.current_placement.placement_time), w.now) + _t(par.remaining_time)
                mm.setObjective(vs[cs[0]], GRB.MINIMIZE)
                mm.optimize()
                if mm.Status == GRB.OPTIMAL and mm.ObjVal < bound - 1e-6:
                    found.append(f"feasible point: {c.unique_name} starts at {mm.ObjVal} before {par.state.name} parent finishes at {bound}")
                continue
            px = x_indices(par)
            ps = var_index(f"{par.unique_name}_start")
            # (a) child placed, parent unplaced
            mm.setObjective(gp.quicksum(vs[i] for i in px), GRB.MINIMIZE)
            mm.optimize()
            if mm.Status == GRB.OPTIMAL and mm.ObjVal < 0.5:
                found.append(f"feasible point: {c.unique_name} placed while parent {par.unique_name} is unplaced")
                continue
            if mm.Status != GRB.OPTIMAL:
                continue  # child can never be placed
            # (b) child starts before parent start + chosen runtime
            expr = vs[cs[0]] - vs[ps[0]] - gp.quicksum(x_runtime(labs[i]) * vs[i] for i in px)
            mm.setObjective(expr, GRB.MINIMIZE)
            mm.optimize()
            if mm.Status == GRB.OPTIMAL and mm.ObjVal < -1e-6:
                found.append(f"feasible point: {c.unique_name} starts {-mm.ObjVal} before parent {par.unique_name} finishes")
    return found


# --------------------------------------------------------------------------
# Generators
# --------------------------------------------------------------------------

RES = ["CPU", "GPU"]


def gen_world(rng, kind: str) -> dict:
    """A world spec. `kind`: 'c14' (enumerable instance within the property's bound),
    'dag' (graph shapes for C11), 'mix' (states/occupancy for C10), 'deadline' (C12)."""
    now = rng.choice([0, 0, 3, 7])
    small = kind == "c14"
    n_pools = 1 if small or rng.random() < 0.5 else 2
    n_workers = rng.randint(1, 2) if small else rng.randint(1, 3)
    pools = [{"name": f"P{i}", "workers": []} for i in range(n_pools)]
    workers = []
    for i in range(n_workers):
        res = [["CPU", rng.randint(1, 3)]]
        if rng.random() < 0.5:
            res.append(["GPU", rng.randint(1, 2)])
        if rng.random() < 0.15:
            res.append(["CPU", 1])  # a second CPU entry: totals are summed per name
        wk = {"name": f"W{i}", "res": res}
        pools[i % n_pools]["workers"].append(wk)
    pools = [p for p in pools if p["workers"]]
    order = [wk for p in pools for wk in p["workers"]]  # ILP index order
    has_gpu = any(any(r == "GPU" for r, _ in wk["res"]) for wk in order)

    max_tasks = 4 if small else 5
    n_graphs = rng.randint(1, 3)
    graphs = []
    total = 0
    horizon = rng.randint(6, 12)
    flags = {
        "enforce_deadlines": True,
        "retract": rng.random() < 0.3,
        "release_taskgraphs": rng.random() < (0.3 if kind in ("dag", "c14") else 0.15),
        "lookahead": rng.choice([0, 0, 4, 30]),
        "goal": "max_goodput",
    }
    if kind in ("mix", "dag") and rng.random() < 0.2:
        flags["goal"] = "max_slack"
        flags["enforce_deadlines"] = rng.random() < 0.5
    if kind == "deadline":
        flags["release_taskgraphs"] = False
    # occupancy bookkeeping so that RUNNING / SCHEDULED tasks are jointly feasible (reachable states)
    totals = []
    for wk in order:
        tot = {}
        for r, q in wk["res"]:
            tot[r] = tot.get(r, 0) + q
        totals.append(tot)
    booked = [[] for _ in order]  # per worker: (start, end, req dict), half-open

    def fits(wi, req, s0, e0):
        reqd = {}
        for rr, q in req:
            reqd[rr] = reqd.get(rr, 0) + q
        if any(totals[wi].get(rr, 0) < q for rr, q in reqd.items()):
            return False
        for tau in [s0] + [b[0] for b in booked[wi] if s0 <= b[0] < e0]:
            use = dict(reqd)
            for (bs, be, breq) in booked[wi]:
                if bs <= tau < be:
                    for rr, q in breq.items():
                        use[rr] = use.get(rr, 0) + q
            if any(q > totals[wi].get(rr, 0) for rr, q in use.items()):
                return False
        return True

    def book(wi, req, s0, e0):
        reqd = {}
        for rr, q in req:
            reqd[rr] = reqd.get(rr, 0) + q
        booked[wi].append((s0, e0, reqd))

    for gi in range(n_graphs):
        if total >= max_tasks:
            break
        k = rng.randint(1, min(3 if small else 4, max_tasks - total))
        total += k
        shape = rng.choice(["chain", "chain", "dag", "indep"]) if not small else rng.choice(["chain", "indep", "chain", "dag"])
        edges = []
        if shape == "chain":
            edges = [[i, i + 1] for i in range(k - 1)]
        elif shape == "dag":
            for a in range(k):
                for b in range(a + 1, k):
                    if rng.random() < 0.5:
                        edges.append([a, b])
        tasks = []
        for ti in range(k):
            ns = rng.randint(1, 2)
            strats = []
            for si in range(ns):
                req = [["CPU", rng.randint(1, 2)]]
                if has_gpu and rng.random() < 0.3:
                    req.append(["GPU", 1])
                if rng.random() < 0.1:
                    req = [["GPU", 1]] if has_gpu else req
                strats.append({"batch": 1, "runtime": rng.randint(1, 5), "req": req})
            tasks.append({"name": f"T{ti}", "ts": 0, "strats": strats})
        # states, in topological (index) order
        states = {}
        for ti, t in enumerate(tasks):
            parents = [a for a, b in edges if b == ti]
            pstates = [states[a] for a in parents]
            r = rng.random()
            fit = None
            if all(s == "COMPLETED" for s in pstates):
                if kind == "c14":
                    st = (
                        "RUNNING" if r < 0.15 else "COMPLETED" if r < 0.25 and ti < k - 1
                        else "SCHEDULED" if r < 0.42 else "RELEASED"
                    )
                else:
                    st = "COMPLETED" if r < 0.2 and ti < k - 1 else "RUNNING" if r < 0.4 else "SCHEDULED" if r < 0.55 else "RELEASED"
            elif (
                all(s in ("COMPLETED", "RUNNING", "SCHEDULED") for s in pstates)
                and r < 0.25
                # a task planned ahead by an earlier invocation.  Under retraction the real frontier
                # re-offers it only while its parents' estimates stay inside the lookahead; with the
                # largest lookahead (30 > sum of all runtimes) that holds for every generated graph,
                # so the state is one a run can reach and every SCHEDULED task must be re-offered.
                and (not flags["retract"] or flags["lookahead"] == 30)
            ):
                st = "SCHEDULED"
            else:
                st = "VIRTUAL"
            if st == "SCHEDULED" and kind == "c14":
                # keep the enumerable instances productive: finding C10-ILP-1 (crash on an
                # incompatible pair of a SCHEDULED task) is exercised by the other kinds
                if not all(
                    all(totals[wi].get(rr, 0) >= q for rr, q in s_["req"]) for wi in range(len(order)) for s_ in t["strats"]
                ):
                    st = "RELEASED" if all(s == "COMPLETED" for s in pstates) else "VIRTUAL"
            release = max(0, now - rng.randint(0, 3))
            plan_ = None
            if st in ("RUNNING", "SCHEDULED", "COMPLETED"):
                opts = []
                for wi in range(len(order)):
                    for si, s_ in enumerate(t["strats"]):
                        rt = s_["runtime"]
                        if st == "RUNNING":
                            started = min(now, max(release, now - rng.randint(0, max(0, rt - 1))))
                            remaining = max(1, rt - (now - started))
                            if fits(wi, s_["req"], now, now + remaining):
                                opts.append((wi, si, started, remaining))
                        elif st == "SCHEDULED":
                            # placement time in the past (start due, not performed yet), exactly now, or later
                            at = max(0, now + rng.choice([-2, -1, 0, 0, 1, 2, 3, 5]))
                            if fits(wi, s_["req"], max(at, now), max(at, now) + rt):
                                opts.append((wi, si, at, rt))
                        else:
                            if all(totals[wi].get(rr, 0) >= q for rr, q in s_["req"]):
                                opts.append((wi, si, release, 0))
                if not opts:
                    st = "RELEASED" if all(s == "COMPLETED" for s in pstates) else "VIRTUAL"
                else:
                    plan_ = rng.choice(opts)
            states[ti] = st
            t["state"] = st
            if st == "VIRTUAL":
                t["release"] = None if rng.random() < 0.6 else now + rng.randint(0, 6)
            else:
                t["release"] = release
            if st == "RELEASED" and rng.random() < 0.15 and flags["lookahead"] > 0:
                t["release"] = now + rng.randint(1, 4)  # released in the future, inside/outside the lookahead
            if plan_ is not None:
                wi, si, at, rem = plan_
                if st == "RUNNING":
                    book(wi, t["strats"][si]["req"], now, now + rem)
                    t["prev"] = {"w": wi, "s": si, "time": at, "sched_at": t["release"], "remaining": rem}
                elif st == "SCHEDULED":
                    book(wi, t["strats"][si]["req"], max(at, now), max(at, now) + rem)
                    t["release"] = min(t["release"], at)
                    t["prev"] = {"w": wi, "s": si, "time": at, "sched_at": min(max(0, now - 1), at)}
                else:
                    t["prev"] = {"w": wi, "s": si, "time": t["release"], "sched_at": t["release"], "finish": now}
            # deadline
            fastest = min(s["runtime"] for s in t["strats"])
            r = rng.random()
            if kind == "deadline":
                d = now + fastest + rng.choice([-2, -1, 0, 1, 2, 3, 8])
            elif r < 0.08:
                d = now + fastest - rng.randint(0, 2)  # hopeless / boundary
            elif r < 0.3:
                d = now + 1 + fastest + rng.randint(0, 1)  # tight in the ILP's own time model
            else:
                d = now + rng.randint(fastest + 1, horizon + 3 * ti)
            t["deadline"] = max(d, 0)
        graphs.append({"name": f"G{gi}", "tasks": tasks, "edges": edges})
    spec = {
        "now": now,
        "pools": pools,
        "graphs": graphs,
        "flags": flags,
        "allowed0": [],
        "uuid_seed": rng.randint(0, 10**9),
    }
    return spec


# Hand-written corpus: minimal inputs of past failures / known quirks, always run first.
def corpus(kind: str) -> list[dict]:
    def task(name, state, strats, deadline, release=0, prev=None, ts=0):
        t = {"name": name, "ts": ts, "state": state, "strats": strats, "deadline": deadline, "release": release}
        if prev:
            t["prev"] = prev
        return t

    def st(rt, cpu=1):
        return {"batch": 1, "runtime": rt, "req": [["CPU", cpu]]}

    one_pool = lambda cpu: [{"name": "P0", "workers": [{"name": "W0", "res": [["CPU", cpu]]}]}]
    flags = {"enforce_deadlines": True, "retract": False, "release_taskgraphs": False, "lookahead": 0, "goal": "max_goodput"}
    out = []
    # pairwise-overlap capacity: A long, B and C short and sequential; CPU=2; all three fit.
    out.append(
        {
            "now": 0,
            "pools": one_pool(2),
            "graphs": [
                {"name": "G0", "tasks": [task("A", "RELEASED", [st(10)], 11)], "edges": []},
                {"name": "G1", "tasks": [task("B", "RELEASED", [st(2)], 11)], "edges": []},
                {"name": "G2", "tasks": [task("C", "RELEASED", [st(2)], 11)], "edges": []},
            ],
            "flags": dict(flags),
            "allowed0": [],
            "uuid_seed": 1,
        }
    )
    # one hopeless task (deadline < now + 1) next to a feasible one
    out.append(
        {
            "now": 5,
            "pools": one_pool(2),
            "graphs": [
                {"name": "G0", "tasks": [task("A", "RELEASED", [st(3)], 20, release=5)], "edges": []},
                {"name": "G1", "tasks": [task("B", "RELEASED", [st(2)], 5, release=5)], "edges": []},
            ],
            "flags": dict(flags),
            "allowed0": [],
            "uuid_seed": 2,
        }
    )
    # chain with a RUNNING parent and lookahead; whole graph released
    out.append(
        {
            "now": 3,
            "pools": one_pool(2),
            "graphs": [
                {
                    "name": "G0",
                    "tasks": [
                        task("A", "RUNNING", [st(4)], 30, release=1, prev={"w": 0, "s": 0, "time": 2, "sched_at": 1, "remaining": 3}),
                        task("B", "VIRTUAL", [st(2), st(3, 2)], 30, release=None),
                        task("C", "VIRTUAL", [st(2)], 30, release=None),
                    ],
                    "edges": [[0, 1], [1, 2]],
                }
            ],
            "flags": dict(flags, release_taskgraphs=True, lookahead=10),
            "allowed0": [],
            "uuid_seed": 3,
        }
    )
    # join with one COMPLETED parent (no variables) and one released parent, offered by lookahead
    out.append(
        {
            "now": 0,
            "pools": one_pool(2),
            "graphs": [
                {
                    "name": "G0",
                    "tasks": [
                        task("A", "RELEASED", [st(1)], 7),
                        task("B", "COMPLETED", [st(1)], 7, prev={"w": 0, "s": 0, "time": 0, "sched_at": 0, "finish": 0}),
                        task("J", "VIRTUAL", [st(2)], 10, release=None),
                    ],
                    "edges": [[0, 2], [1, 2]],
                }
            ],
            "flags": dict(flags, lookahead=10),
            "allowed0": [],
            "uuid_seed": 4,
        }
    )
    # retraction: T1 was SCHEDULED by an earlier invocation, then T2 and T3 arrive; dropping T1
    # lets two graphs finish (T2@1, T3@5), keeping it only one
    out.append(
        {
            "now": 0,
            "pools": one_pool(1),
            "graphs": [
                {"name": "G0", "tasks": [task("T1", "SCHEDULED", [st(8)], 10, prev={"w": 0, "s": 0, "time": 1, "sched_at": 0})], "edges": []},
                {"name": "G1", "tasks": [task("T2", "RELEASED", [st(3)], 5)], "edges": []},
                {"name": "G2", "tasks": [task("T3", "RELEASED", [st(3)], 10)], "edges": []},
            ],
            "flags": dict(flags, retract=True),
            "allowed0": [],
            "uuid_seed": 5,
        }
    )
    # retraction + lookahead: the parent was SCHEDULED for t=5 by an earlier invocation; the
    # scheduler runs again before, exactly at and after t=5 (start due, not performed yet) and is
    # offered the VIRTUAL child ahead of its release together with an unrelated arrival
    for k, now in enumerate((3, 5, 7)):
        out.append(
            {
                "now": now,
                "pools": one_pool(4),
                "graphs": [
                    {
                        "name": "G0",
                        "tasks": [
                            task("P", "SCHEDULED", [st(10)], 60, prev={"w": 0, "s": 0, "time": 5, "sched_at": 0}),
                            task("C", "VIRTUAL", [st(3)], 60, release=None),
                        ],
                        "edges": [[0, 1]],
                    },
                    {"name": "G1", "tasks": [task("O", "RELEASED", [st(2)], 60, release=now)], "edges": []},
                ],
                "flags": dict(flags, retract=True, lookahead=30),
                "allowed0": [],
                "uuid_seed": 6 + k,
            }
        )
    return out


# --------------------------------------------------------------------------
# One case
# --------------------------------------------------------------------------


def run_case(spec: dict, want_opt: bool):
    """Real side of one case. Returns (world, rec, driver_case or None)."""
    w = build_world(spec)
    rec = real_schedule(w)
    case = None
    if rec["err"] is not None and rec.get("tasks") is not None:
        # an exception is an outcome: the model must predict it from the same instance
        rec["solved"] = False
        rec["inst"] = extract_inst(w, rec)
        case = {"suite": SUITE, "inst": rec["inst"], "sigma": None, "opt": False, "model": False}
    if rec["err"] is None and rec.get("tasks") is not None and rec["model"] is not None:
        inst = extract_inst(w, rec)
        m = rec["model"]
        R = _repo()
        GRB = R["GRB"]
        solved = m.Status == GRB.OPTIMAL or (m.Status == GRB.INTERRUPTED and getattr(m, "_solution_found", False))
        sigma = None
        rec["sigma_bad"] = []
        if solved:
            sigma, rec["sigma_bad"] = solver_sigma(m)
        rec["solved"] = solved
        rec["inst"] = inst
        case = {"suite": SUITE, "inst": inst, "sigma": sigma, "opt": bool(want_opt)}
    return w, rec, case


def canonical_case(spec: dict) -> dict:
    c = {k: spec[k] for k in ("now", "pools", "graphs", "flags", "allowed0")}
    c.update({k: spec[k] for k in ("scale", "warmup") if spec.get(k)})  # flavours (harness/planners/_worlds.py)
    return c


def compare_case(w, rec, reply, want_opt) -> list[str]:
    """Correspondence: captured model vs gen, placements vs decode, solver point vs sat."""
    dis = []
    if "protocol_error" in reply:
        return [f"driver protocol error: {reply['protocol_error']}"]
    if rec["err"] is not None or "err" in reply:
        real = None if rec["err"] is None else rec["err"].split(":")[0]
        if reply.get("err") != real:
            return [f"exception outcome differs: real={real} model={reply.get('err')}"]
        return []
    if not reply.get("wf", False):
        dis.append("extracted instance violates the theorems' well-formedness hypotheses (Inst.wf = false)")
    dis += diff_models(canon_gurobi(rec["model"]), canon_lean(reply))
    real = real_decisions(w, rec)
    if rec["solved"]:
        if rec["sigma_bad"]:
            dis.append(f"solver returned non-integral values {rec['sigma_bad'][:3]}")
        if not reply.get("sat", False):
            dis.append(f"solver point does not satisfy gen inst: {reply.get('violated')[:4]}")
        if reply.get("decode") != real:
            dis.append(f"decode differs: real={real} model={reply.get('decode')}")
        ov = round(rec["model"].ObjVal)
        if reply.get("objval") != ov:
            dis.append(f"objective value real={ov} model={reply.get('objval')}")
        if not reply.get("plan_valid", False):
            dis.append("decoded plan is not a ValidPlan of the independent specification (model side)")
        if not w.spec["flags"]["goal"] == "max_slack" and reply.get("plan_goodput") != ov:
            dis.append(f"goodput of decoded plan {reply.get('plan_goodput')} != objective {ov}")
    else:
        if reply.get("decode_fail") != real:
            dis.append(f"failure decisions differ: real={real} model={reply.get('decode_fail')}")
    if want_opt and w.spec["flags"]["goal"] == "max_goodput":
        # faithful semantic reading: max objective = optimum under the pairwise rules
        if rec["solved"]:
            if reply.get("opt_pw") != round(rec["model"].ObjVal):
                dis.append(f"solver objective {round(rec['model'].ObjVal)} != optGoodputPW {reply.get('opt_pw')}")
        elif reply.get("opt_pw") is not None:
            dis.append(f"solver found no solution but optGoodputPW = {reply.get('opt_pw')}")
    return dis


def _count_flavours(chk, name, spec):
    if spec.get("scale"):
        chk.count(f"{name}:flavour=1000x-scale" + (",mixed-units-in-one-profile" if _worlds.has_mixed_profile(spec) else ""))
    if any(g.get("decl") for g in spec["graphs"]):
        chk.count(f"{name}:flavour=declaration-order" + ("" if all(_worlds.is_topological_decl(g) for g in spec["graphs"]) else ",non-topological"))
    if spec.get("flavour"):
        chk.count(f"{name}:flavour={spec['flavour']}")
    if spec.get("warmup"):
        chk.count(f"{name}:flavour=warm-scheduler")


def counts_for(prop: str, tier: str) -> int:
    quick = {"C10": 60, "C11": 60, "C12": 60, "C14": 80}
    thorough = {"C10": 600, "C11": 600, "C12": 500, "C14": 700}
    return (quick if tier == "quick" else thorough)[prop]


KIND = {"C10": "mix", "C11": "dag", "C12": "deadline", "C14": "c14"}


def gen_chain_b(rng) -> dict:
    """Chain-B world (see `_worlds.gen_chain_b`): retracting mode, RUNNING X -> SCHEDULED B -> VIRTUAL C declared in
    a non-topological order, `runtime(B) <= lookahead < remaining(X)`.  Nothing of such a chain is schedulable
    (the ILP builds no model: the world holds nothing else that could be offered, because a SCHEDULED task
    the retracting frontier does not give back lies outside `Inst.wfPlaced`); in the control worlds
    (lookahead 30) everything is re-offered."""
    b = _worlds.gen_chain_b(rng, now_choices=(0, 3, 7), extra_graph=False)
    flags = {
        "enforce_deadlines": True,
        "retract": True,
        "release_taskgraphs": rng.random() < 0.15,
        "lookahead": b["lookahead"],
        "goal": "max_goodput",
    }
    return {"now": b["now"], "pools": b["pools"], "graphs": b["graphs"], "flags": flags, "allowed0": [],
            "uuid_seed": rng.randint(0, 10**9), "flavour": "chain_b" + ("_control" if b["control"] else "")}


def mixed_corpus() -> list[dict]:
    """Hand-written mixed-unit worlds (1000x scale): a parent whose only compatible strategy is the slow one,
    written in ms next to a fast one in us (raw integers 5 < 2000), and its child offered by lookahead."""
    def st(rt, cpu, ms=False):
        d = {"batch": 1, "runtime": rt, "req": [["CPU", cpu]]}
        if ms:
            d["rt_ms"] = True
        return d

    flags = {"enforce_deadlines": True, "retract": False, "release_taskgraphs": False, "lookahead": 20000, "goal": "max_goodput"}
    return [
        {
            "now": 3000,
            "scale": 1000,
            "pools": [{"name": "P0", "workers": [{"name": "W0", "res": [["CPU", 2]]}]}],
            "graphs": [
                {
                    "name": "G0",
                    "tasks": [
                        {"name": "A", "ts": 0, "state": "RELEASED", "strats": [st(2000, 3), st(5000, 1, ms=True)], "deadline": 40000, "dl_ms": True, "release": 2000, "rel_ms": True},
                        {"name": "B", "ts": 0, "state": "VIRTUAL", "strats": [st(3000, 1)], "deadline": 40000, "release": None},
                    ],
                    "edges": [[0, 1]],
                    "decl": [1, 0],
                }
            ],
            "flags": dict(flags),
            "allowed0": [],
            "uuid_seed": 21,
        }
    ]


P_DECL, P_MIXED, P_WARM = 0.4, 0.25, 0.15


def gen_specs(prop: str, rng, tier: str, widened=False) -> list[dict]:
    n = counts_for(prop, tier)
    if widened:
        n *= 2
    r = rng.sub(f"ilp/{prop}/{'w' if widened else 'n'}")
    fr = rng.sub(f"ilp/{prop}/{'w' if widened else 'n'}/flavours")  # own stream: the base worlds stay what they were
    specs = list(corpus(KIND[prop]))
    n_corpus = len(specs)
    kinds = [KIND[prop]] if not widened else ["mix", "dag", "deadline", "c14"]
    while len(specs) < n:
        k = r.choice(kinds)
        spec = gen_world(r, k)
        spec["kind"] = k
        specs.append(spec)
    for spec in specs[n_corpus:]:
        # flavours (harness/planners/_worlds.py): non-topological declaration order; 1000x scale with mixed units
        # (not for the enumerable C14 instances: their exhaustive searches range over every start instant)
        if fr.random() < P_DECL:
            _worlds.shuffle_decl(spec, fr)
        if prop != "C14" and spec["kind"] != "c14" and fr.random() < P_MIXED:
            _worlds.scale_mixed(spec, fr)
    wr = rng.sub(f"ilp/{prop}/{'w' if widened else 'n'}/warmup")
    for spec in specs[n_corpus:]:
        if wr.random() < P_WARM:
            _worlds.gen_warmup(spec, wr)
    if prop != "C14":
        specs[n_corpus:n_corpus] = mixed_corpus()
    if prop in ("C10", "C11"):
        # chain-B worlds in addition (10 %)
        for _ in range(max(4, n // 10)):
            spec = gen_chain_b(fr)
            if fr.random() < 0.3:
                _worlds.scale_mixed(spec, fr)
            specs.append(spec)
    return specs


def oracle_for(prop, w, rec) -> list[str]:
    if prop == "C10":
        return oracle_c10(w, rec)
    if prop == "C11":
        return oracle_c11(w, rec)
    if prop == "C12":
        return oracle_c12(w, rec)
    return []


def run(prop: str, chk, rng, tier: str) -> list[str]:
    prop = prop.upper()
    specs = gen_specs(prop, rng, tier)
    want_opt = prop == "C14"
    disagreements = []
    worlds, cases, idx = [], [], []
    t0 = _time.time()
    for i, spec in enumerate(specs):
        if want_opt and not _c14_bounded(spec):
            continue
        w, rec, case = run_case(spec, want_opt)
        worlds.append((spec, w, rec))
        if case is not None:
            idx.append(len(worlds) - 1)
            cases.append(case)
    replies = common.run_driver(cases) if cases else []
    by_world = {wi: r for wi, r in zip(idx, replies)}
    for wi, (spec, w, rec) in enumerate(worlds):
        reply = by_world.get(wi)
        f = spec["flags"]
        n_off = len(rec.get("offered", []))
        placed = 0 if rec["placements"] is None else sum(1 for p in rec["placements"] if p.is_placed())
        chk.case({"planner": NAME, "spec": canonical_case(spec)}, nontrivial=(rec["err"] is None and n_off > 0 and reply is not None))
        chk.count(f"ilp:offered={min(n_off, 5)}")
        chk.count(f"ilp:placed={min(placed, 5)}")
        chk.count(f"ilp:goal={f['goal']}")
        chk.count(f"ilp:retract={f['retract']},release_tg={f['release_taskgraphs']}")
        _count_flavours(chk, "ilp", spec)
        if rec["err"]:
            chk.count("ilp:raised")
        if reply is not None:
            chk.count("ilp:raised-predicted" if rec["err"] else "ilp:solved" if rec["solved"] else "ilp:no-solution")
            chk.count(f"ilp:tasks_with_vars={len(rec['tasks'])}")
            chk.traces_validated += 1
            d = compare_case(w, rec, reply, want_opt)
            for x in d:
                disagreements.append(f"[ilp case {wi}] {x} :: spec={json.dumps(canonical_case(spec))[:600]}")
        elif rec["err"] is None:
            # nothing offered: no model is built and nothing is returned
            if len(rec["placements"]) != 0 or rec["n_models"] != 0:
                disagreements.append(f"[ilp case {wi}] nothing offered but placements/model produced")
        # oracles on the real output
        if f["retract"] and any(t.state.name == "SCHEDULED" and t.unique_name not in {o.unique_name for o in rec.get("offered", [])} for _, t in w.task_list):
            chk.count("ilp:retract-with-SCHEDULED-task-not-re-offered")
        if prop in ("C10", "C11", "C12"):
            for b in oracle_for(prop, w, rec):
                chk.violation(f"ilp {prop}: {b}", {"planner": NAME, "prop": prop, "spec": spec, "what": b})
        if prop == "C11" and reply is not None and rec["model"] is not None:
            for b in adversarial_precedence(w, rec):
                chk.count("ilp:adversarial-hit")
                chk.violation(f"ilp C11: {b.split(':')[0]} of the captured model violates precedence", {"planner": NAME, "prop": prop, "spec": spec, "what": b, "adversarial": True})
            chk.count("ilp:adversarial-queries")
        if prop == "C14" and reply is not None and rec["model"] is not None and f["goal"] == "max_goodput":
            try:
                got, best, sig = c14_verdict(w, rec)
                best_model_semantics = brute_force_goodput(w, rec)
            except TimeoutError:
                chk.count("ilp:bruteforce-skipped")
                continue
            if reply.get("opt") != best_model_semantics:
                disagreements.append(f"[ilp case {wi}] optGoodput model={reply.get('opt')} python={best_model_semantics} :: spec={json.dumps(canonical_case(spec))[:600]}")
            chk.count("ilp:bruteforce" if best is not None else "ilp:bruteforce-not-applicable")
            if sig is not None:
                chk.violation(sig, {"planner": NAME, "prop": prop, "spec": spec, "got": got, "best": best, "what": sig})
            if rec["solved"] and rec["model"].ObjVal > 9.5:
                chk.count("ilp:objective>9 (gap not exact)")
    chk.extra.setdefault("planner_wall_s", {})[f"ilp/{prop}"] = round(_time.time() - t0, 1)
    return disagreements


def _c14_bounded(spec) -> bool:
    n = sum(len(g["tasks"]) for g in spec["graphs"])
    nw = sum(len(p["workers"]) for p in spec["pools"])
    return n <= 5 and nw <= 2


def search(prop: str, chk, rng, tier: str) -> None:
    """Failing-input search on the real code only (no Lean): widened generator + oracles."""
    prop = prop.upper()
    for spec in gen_specs(prop, rng, tier, widened=True):
        try:
            w, rec, case = run_case(spec, False)
        except Exception:
            continue
        for p_ in ("C10", "C11", "C12"):
            if p_ != prop:
                continue
            for b in oracle_for(p_, w, rec):
                chk.violation(f"ilp {p_}: {b}", {"planner": NAME, "prop": p_, "spec": spec, "what": b}, found_input=True)
        if prop == "C11" and case is not None and rec["model"] is not None:
            for b in adversarial_precedence(w, rec):
                chk.violation(f"ilp C11: {b.split(':')[0]} of the captured model violates precedence", {"planner": NAME, "prop": prop, "spec": spec, "what": b, "adversarial": True}, found_input=True)
        if prop == "C14" and case is not None and rec["model"] is not None and spec["flags"]["goal"] == "max_goodput" and _c14_bounded(spec):
            try:
                got, best, sig = c14_verdict(w, rec)
            except TimeoutError:
                continue
            if sig is not None:
                chk.violation(sig, {"planner": NAME, "prop": prop, "spec": spec, "got": got, "best": best, "what": sig}, found_input=True)


def replay(rp: dict) -> int:
    """Re-run one replay against the real code alone. 1 = the failure reproduces."""
    spec, prop = rp["spec"], rp["prop"]
    w, rec, case = run_case(spec, False)
    if prop in ("C10", "C11", "C12"):
        bad = oracle_for(prop, w, rec)
        if prop == "C11" and rp.get("adversarial") and case is not None and rec["model"] is not None:
            bad += adversarial_precedence(w, rec)
        for b in bad:
            print(f"reproduced: ilp {prop}: {b}")
        return 1 if bad else 0
    if prop == "C14":
        got, best, sig = c14_verdict(w, rec)
        print(f"ilp C14: goodput returned={got} feasible optimum={best} {sig or ''}")
        return 1 if sig is not None else 0
    return 0
