"""Clockwork plugin for C12 (deadline enforcement).

The Clockwork policy is modelled and proved in the C15 slice (Model/Clockwork.lean,
Props/C15.lean: batch_wellformed - every batch is on time -, never_places_hopeless,
hopeless_cancelled, cancel_only_hopeless; all over every reachable state of every
invocation history). C12 names Clockwork among the policies that never plan past a
deadline and answer hopeless requests with a cancellation, so those theorems are
registered for C12 as well (lean/registry/C12_clockwork.json) and this plugin runs the
same real-code histories with the deadline clauses of the C15 oracle and the
model/implementation comparison.
"""
from __future__ import annotations

import json

from harness import common
from harness.gen import clockwork_gen as gen
from harness.impl import clockwork_world as cw

NAME = "clockwork"
PROPS = {"C12"}
CLAUSES = ("late-batch", "hopeless-not-cancelled", "hopeless-placed")
SIZES = {"quick": [("normal", 250), ("small", 100)], "thorough": [("normal", 5000), ("small", 2000), ("large", 500)]}


def _sig(prop, spec, clause):
    return f"clockwork {prop}: {clause} goal={spec['goal']} run_load={bool(spec.get('run_load'))}"


def _run_specs(prop, chk, specs, report=True):
    cases, all_obs, found = [], [], 0
    for spec in specs:
        lean_case, obs, failures = cw.run_spec(spec)
        cases.append(lean_case)
        all_obs.append(obs)
        chk.traces_validated += len(obs)
        nb = sum(len(o["batches"]) for o in obs)
        chk.case({"planner": NAME, "goal": spec["goal"], "models": len(spec["models"]), "invocations": len(obs), "batches": nb}, nontrivial=nb > 0, sample_every=2000)
        chk.count(f"clockwork:goal:{spec['goal']}")
        chk.count("clockwork:cancel-decisions", sum(len(o["cancels"]) for o in obs))
        seen = set()
        for k, clause, detail in failures:
            if clause.split()[0] not in CLAUSES and not any(clause.startswith(c) for c in CLAUSES):
                continue
            if clause in seen:
                continue
            seen.add(clause)
            found += 1
            if report:
                chk.violation(_sig(prop, spec, clause.split()[0]), {"planner": NAME, "spec": spec, "invocation": k, "clause": clause, "detail": detail, "how": "deadline clauses of the Clockwork oracle on the real ClockworkScheduler"})
    return cases, all_obs, found


def run(prop, chk, rng, tier):
    from harness.suites import c15

    specs = list(gen.corpus())
    for size, n in SIZES[tier]:
        r = rng.sub(size)
        specs += [gen.gen_spec(r, size) for _ in range(n)]
    cases, all_obs, _ = _run_specs(prop, chk, specs)
    dis = []
    try:
        replies = common.run_driver(cases)
    except common.LeanFailure as e:
        return [f"lean-driver: {e.what}"]
    for spec, obs, reply in zip(specs, all_obs, replies):
        if any(o["err"] == "ScheduleTimeout" for o in obs):
            continue
        d = c15._diff(obs, reply)
        if d is not None:
            dis.append(f"clockwork history differs at invocation {d['invocation']} on {d['what']}")
    return dis[:5]


def search(prop, chk, rng, tier):
    specs = [gen.gen_spec(rng, "normal") for _ in range(1500)]
    _run_specs(prop, chk, specs)


def replay(rp) -> int:
    spec = rp["spec"]
    _, obs, failures = cw.run_spec(spec)
    hits = [f for f in failures if f[1].split()[0] in CLAUSES]
    print("deadline-clause failures on the current tree:", [f[1] for f in hits][:5])
    if hits:
        print(f"VIOLATION property=C12 replay=<this file>")
        return 1
    return 0
