"""Planner plugin: the three greedy policies EDFScheduler, FIFOScheduler, LSFScheduler
(schedulers/{edf,fifo,lsf}_scheduler.py, non-preemptive mode) for the greedy clauses of
C10 and C12; the same machinery is the whole of C13 (harness/suites/c13.py).

For every generated invocation the plugin

1. builds the real objects (Workload / TaskGraph / Task driven into RELEASED, PREEMPTED,
   RUNNING, COMPLETED, VIRTUAL states with arbitrary deadlines / releases / remaining times,
   WorkerPools partially occupied by RUNNING tasks really placed) from a JSON *world spec*;
2. calls the REAL `schedule(sim_time, workload, worker_pools)`; the offer
   (`get_schedulable_tasks`) is recorded by a wrapper, the virtual cluster the policy plans
   on is captured at `copy(worker_pools)` (module global `copy` of the policy's module) and
   snapshotted right after the copy and after `schedule` returned; every live getter and
   every task field is snapshotted before and after;
3. pipes the same invocation (live cluster as a construction history, the recorded offer as
   read back from the real Task objects) through the Lean driver (suite "greedy");
4. compares: processing order, every returned Placement (order, type, pool, strategy, time,
   worker), the virtual cluster after `copy` and at return, exception outcome;
5. runs the model-independent oracles of C10 / C12 / C13 on the real Placements.

`run` returns the correspondence disagreements; oracle failures go through `chk.violation`.
"""
from __future__ import annotations

import json
import logging
import random as _pyrandom
import time as _time

from harness import common

NAME = "greedy"
PROPS = {"C10", "C12"}
SUITE = "greedy"
POLICIES = ("EDF", "FIFO", "LSF")

_R = {}


def _repo():
    """Import the real implementation once (from $ERDOS_REPO or /repo)."""
    if _R:
        return _R
    common.use_repo()
    logging.disable(logging.CRITICAL)
    import schedulers.edf_scheduler as edf_mod
    import schedulers.fifo_scheduler as fifo_mod
    import schedulers.lsf_scheduler as lsf_mod
    from utils import EventTime
    from workers import Worker, WorkerPool, WorkerPools
    from workload import (
        ExecutionStrategies,
        ExecutionStrategy,
        Job,
        Placement,
        Resource,
        Resources,
        Task,
        TaskGraph,
        TaskState,
        Workload,
        WorkProfile,
    )

    mods = {"EDF": edf_mod, "FIFO": fifo_mod, "LSF": lsf_mod}
    classes = {"EDF": edf_mod.EDFScheduler, "FIFO": fifo_mod.FIFOScheduler, "LSF": lsf_mod.LSFScheduler}
    _R.update(locals())
    return _R


def US(t):
    R = _repo()
    return R["EventTime"](int(t), R["EventTime"].Unit.US)


def _t(et):
    R = _repo()
    return et.to(R["EventTime"].Unit.US).time


class World:
    pass


# --------------------------------------------------------------------------
# World construction
# --------------------------------------------------------------------------


def build_world(spec: dict) -> World:
    """Construct the real objects described by `spec` (see `gen_world`)."""
    R = _repo()
    _pyrandom.seed(spec.get("uuid_seed", 0))  # the repo draws uuids from the global `random`
    Resource, Resources, EventTime = R["Resource"], R["Resources"], R["EventTime"]
    w = World()
    w.spec = spec
    w.now = spec["now"]
    w.workers = []  # (worker, pool, pool index, index in pool)
    w.rid = {}  # resource id string -> label
    pools = []
    k = 0
    for pi, p in enumerate(spec["pools"]):
        ws = []
        for wi, wk in enumerate(p["workers"]):
            vec = {}
            for n, q in wk["res"]:
                vec[Resource(name=n, _id=f"id{k}")] = q  # one dict key per entry: several instances of a name
                w.rid[f"id{k}"] = k
                k += 1
            ws.append(R["Worker"](name=wk["name"], resources=Resources(vec)))
        pool = R["WorkerPool"](name=p["name"], workers=ws)
        pools.append(pool)
        for wi, worker in enumerate(ws):
            w.workers.append((worker, pool, pi, wi))
    w.pools = pools
    w.worker_pools = R["WorkerPools"](pools)
    w.tasks = {}  # unique name -> (g, t)
    w.task_list = []  # (spec, Task, g, t)
    w.sid = {}  # id(strategy object) -> sid
    w.strat_spec = {}  # sid -> driver json
    graphs = {}
    sid = 0
    for gi, g in enumerate(spec["graphs"]):
        tasks = []
        for ti, t in enumerate(g["tasks"]):
            strat_objs = []
            for s in t["strats"]:
                so = R["ExecutionStrategy"](
                    # an entry is [type, quantity] (any instance) or [type, quantity, k] (the k-th resource instance of
                    # the cluster, counted over pools / workers / entries as `w.rid` does)
                    resources=Resources(resource_vector={Resource(name=e[0], _id=("any" if len(e) < 3 else f"id{e[2]}")): e[1] for e in s["req"]}),
                    batch_size=s.get("bs", 1),
                    # the same duration given in another unit (mixed units inside one profile)
                    runtime=EventTime(int(s["runtime"]) // 1000, EventTime.Unit.MS) if s.get("rt_ms") else US(s["runtime"]),
                )
                w.sid[id(so)] = sid
                w.strat_spec[sid] = None  # filled from the real object in `strat_json`
                sid += 1
                strat_objs.append(so)
            strategies = R["ExecutionStrategies"](strat_objs)
            profile = R["WorkProfile"](name=f"{t['name']}_{g['name']}_profile", execution_strategies=strategies)
            dl = t["deadline"]
            deadline = EventTime(int(dl) // 1000, EventTime.Unit.MS) if t.get("dl_ms") else US(dl)
            task = R["Task"](
                name=t["name"],
                task_graph=g["name"],
                job=R["Job"](name=t["name"], profile=profile),
                deadline=deadline,
                timestamp=t.get("ts", 0),
            )
            tasks.append(task)
        children = {task: [] for task in tasks}
        for a, b in g["edges"]:
            children[tasks[a]].append(tasks[b])
        graphs[g["name"]] = R["TaskGraph"](name=g["name"], tasks=children)
        for ti, (t, task) in enumerate(zip(g["tasks"], tasks)):
            w.tasks[task.unique_name] = (gi, ti)
            w.task_list.append((t, task, gi, ti))
    w.workload = R["Workload"].from_task_graphs(graphs)
    w.running = [[] for _ in pools]  # per pool: driver json of the really placed tasks, in placement order
    w.history = [[] for _ in pools]  # per pool: place / remove operations that built the live cluster, in order
    w.ghosts = []                    # earlier residents that are still to be removed
    for t, task, gi, ti in w.task_list:
        st = t["state"]
        if st == "VIRTUAL":
            continue
        task.release(US(t["release"]))
        if st == "RELEASED":
            u = t.get("unsched")
            if u is not None:
                # an earlier plan for this task was retracted: scheduled (with strategy u["s"]), then unscheduled
                worker, pool, pi, wi = w.workers[u["w"]]
                strategy = task.available_execution_strategies[u["s"]]
                placement = R["Placement"].create_task_placement(
                    task=task, placement_time=US(u["time"]), worker_pool_id=pool.id, worker_id=worker.id, execution_strategy=strategy
                )
                task.schedule(US(u["time"]), placement)
                task.unschedule(US(u["time"]))
            continue
        prev = t["prev"]
        worker, pool, pi, wi = w.workers[prev["w"]]
        strategy = task.available_execution_strategies[prev["s"]]
        placement = R["Placement"].create_task_placement(
            task=task,
            placement_time=US(prev["time"]),
            worker_pool_id=pool.id,
            worker_id=worker.id,
            execution_strategy=strategy,
        )
        task.schedule(US(prev["time"]), placement)
        task.start(US(prev["time"]))
        if st == "RUNNING":
            ok = pool.place_task(task, execution_strategy=strategy, worker_id=worker.id)
            if not ok and w.ghosts:
                # an earlier resident is in the way: it has left by now
                for gpool, gpi, gtask, ggi, gti in w.ghosts:
                    gpool.remove_task(US(w.now), gtask)
                    w.history[gpi].append({"op": "remove", "lid": lid(ggi, gti)})
                w.ghosts = []
                ok = pool.place_task(task, execution_strategy=strategy, worker_id=worker.id)
            if not ok:
                raise RuntimeError("generator produced an over-subscribed RUNNING set")
            task.update_remaining_time(US(prev["remaining"]))
            w.history[pi].append({"op": "place", "lid": lid(gi, ti), "w": wi, "s": strat_json(w, strategy),
                                  "strats": [strat_json(w, s) for s in task.available_execution_strategies]})
            w.running[pi].append(
                {
                    "lid": lid(gi, ti),
                    "w": wi,
                    "s": strat_json(w, strategy),
                    "strats": [strat_json(w, s) for s in task.available_execution_strategies],
                }
            )
            continue
        if st == "PREEMPTED":
            task.update_remaining_time(US(prev["remaining"]))
            task.preempt(US(prev["time"]))
            continue
        if st == "COMPLETED":
            if prev.get("was_resident"):
                # it really ran on the worker (placed like the RUNNING tasks, in task order) and has left since: its
                # resource instances are free again while later arrivals keep theirs
                if pool.place_task(task, execution_strategy=strategy, worker_id=worker.id):
                    rec_ = {"op": "place", "lid": lid(gi, ti), "w": wi, "s": strat_json(w, strategy),
                            "strats": [strat_json(w, s) for s in task.available_execution_strategies]}
                    w.history[pi].append(rec_)
                    w.ghosts.append((pool, pi, task, gi, ti))
            task.update_remaining_time(US(0))
            task.finish(US(prev["finish"]))
            continue
        raise ValueError(st)
    for gpool, gpi, gtask, ggi, gti in w.ghosts:
        gpool.remove_task(US(w.now), gtask)
        w.history[gpi].append({"op": "remove", "lid": lid(ggi, gti)})
    w.ghosts = []
    # work profiles whose load is in progress on a worker (holds resources; the virtual copy must hold them once)
    w.loading = [[] for _ in pools]
    w._loading_keep = []
    for k_, lp in enumerate(spec.get("loading", [])):
        worker, pool, pi, wi = w.workers[lp["w"]]
        so = R["ExecutionStrategy"](
            resources=Resources(resource_vector={Resource(name=n, _id="any"): q for n, q in lp["req"]}), batch_size=1, runtime=US(lp["runtime"]))
        prof = R["WorkProfile"](name=f"loading_profile_{k_}", loading_strategies=R["ExecutionStrategies"]([so]))
        w.sid[id(so)] = sid
        w.strat_spec[sid] = None
        sid += 1
        w._loading_keep.append((prof, so))
        if not worker.can_accomodate_strategy(so):
            continue   # does not fit next to the running tasks: skipped (the generator does not know the occupancy)
        worker.load_profile(prof, so)
        w.loading[pi].append({"w": wi, "p": 1000 + k_, "s": strat_json(w, so)})
    kw = {}
    if spec["policy"] != "LSF":
        kw["enforce_deadlines"] = bool(spec["enforce"])
    w.scheduler = R["classes"][spec["policy"]](preemptive=False, runtime=US(0), **kw)
    return w


def lid(g, t):
    return g * 65536 + t


def strat_json(w: World, s) -> dict:
    return {
        "sid": w.sid.get(id(s), -1),
        "batch": False,
        "bs": s.batch_size,
        "rt": _t(s.runtime),
        "req": [[r.name, w.rid.get(r.id), q] for r, q in s.resources._resource_vector.items()],
    }


# --------------------------------------------------------------------------
# Observation
# --------------------------------------------------------------------------


def snapshot(w: World):
    """Every live getter the property talks about: cluster occupancy and task fields."""
    R = _repo()
    Resource = R["Resource"]
    cl = []
    for worker, pool, pi, wi in w.workers:
        res = worker.resources
        names = sorted({r.name for r in res._resource_vector})
        cl.append(
            (
                worker.name,
                [(r.name, r.id, q) for r, q in res._resource_vector.items()],
                [(r.name, r.id, q) for r, q in res._Resources__total_resources.items()],
                [(n, res.get_available_quantity(Resource(name=n, _id="any"))) for n in names],
                [(n, res.get_allocated_quantity(Resource(name=n, _id="any"))) for n in names],
                [(getattr(c, "unique_name", None) or getattr(c, "name", "?"), [(x.name, x.id, q) for x, q in lst]) for c, lst in res._current_allocations.items()],
                [(t.unique_name, w.sid.get(id(s), -1)) for t, s in worker._placed_tasks.items()],
                sorted(t.unique_name for t in worker.get_placed_tasks()),
                worker.is_full(),
            )
        )
    pl = []
    for pool in w.pools:
        pl.append(
            (
                pool.name,
                pool.id,
                [wk.id for wk in pool.workers],
                [(t.unique_name, wid) for t, wid in pool._placed_tasks.items()],
                sorted(t.unique_name for t in pool.get_placed_tasks()),
                pool.is_full(),
                list(pool.get_utilization()),
            )
        )
    order = [p.id for p in w.worker_pools.worker_pools]
    ts = []
    for _, task, gi, ti in w.task_list:
        cp = task.current_placement
        ts.append(
            (
                task.unique_name,
                str(task.state),
                _t(task.release_time),
                _t(task.deadline),
                None if cp is None else (id(cp), cp.placement_time.time, cp.worker_id, id(cp.execution_strategy)),
                None if task._remaining_time is None else task._remaining_time.time,
                task.start_time.time,
                task.completion_time.time,
                task.worker_pool_id,
                [id(s) for s in task.available_execution_strategies],
                [(s.runtime.time, [(r.name, r.id, q) for r, q in s.resources._resource_vector.items()]) for s in task.available_execution_strategies],
                task.probability,
                len(task._preemptions),
            )
        )
    return (cl, pl, order, ts)


def snap_virtual(w: World, vpools) -> list:
    """Canonical form of a (virtual) WorkerPools, the same shape as the driver's `jPoolV`."""
    out = []
    for vp in vpools.worker_pools:
        widx = {wk.id: i for i, wk in enumerate(vp.workers)}
        out.append(
            {
                "placed": [[lid(*w.tasks[t.unique_name]), widx.get(wid, -1)] for t, wid in vp._placed_tasks.items()],
                "workers": [
                    {
                        "avail": [[r.name, w.rid.get(r.id), q] for r, q in wk.resources._resource_vector.items()],
                        "placed": [[lid(*w.tasks[t.unique_name]), w.sid.get(id(s), -1)] for t, s in wk._placed_tasks.items()],
                    }
                    for wk in vp.workers
                ],
            }
        )
    return out


def real_schedule(w: World) -> dict:
    """Run the real schedule() with capture. Returns everything observed."""
    R = _repo()
    mod = R["mods"][w.spec["policy"]]
    rec = {"virt0": None, "vobj": None, "offered": None, "n_offer_calls": 0}
    orig_get = w.workload.get_schedulable_tasks
    real_copy = mod.copy

    def get_wrapper(*a, **k):
        out = orig_get(*a, **k)
        rec["offered"] = list(out)
        rec["offer_args"] = (len(a), sorted(k))
        rec["n_offer_calls"] += 1
        return out

    def copy_wrapper(obj):
        res = real_copy(obj)
        if isinstance(obj, R["WorkerPools"]):
            rec["vobj"] = res
            rec["virt0"] = snap_virtual(w, res)
        return res

    w.workload.get_schedulable_tasks = get_wrapper
    mod.copy = copy_wrapper
    before = snapshot(w)
    err, placements = None, None
    try:
        placements = w.scheduler.schedule(US(w.now), w.workload, w.worker_pools)
    except Exception as e:  # an exception is an outcome
        err = type(e).__name__ + ": " + str(e)[:200]
    finally:
        mod.copy = real_copy
        del w.workload.get_schedulable_tasks
    after = snapshot(w)
    rec.update(
        placements=None if placements is None else list(placements),
        runtime=None if placements is None else placements.runtime,
        err=err,
        pure=(before == after),
        virt=None if rec["vobj"] is None else snap_virtual(w, rec["vobj"]),
    )
    return rec


def driver_case(w: World, rec: dict) -> dict:
    """The Lean invocation: live cluster as its construction history, the offer as read back
    from the real Task objects that `get_schedulable_tasks` returned."""
    offer = []
    for task in rec["offered"] or []:
        g, t = w.tasks[task.unique_name]
        offer.append(
            {
                "g": g,
                "t": t,
                "graph": task.task_graph,
                "state": task.state.name,
                "deadline": _t(task.deadline),
                "release": _t(task.release_time),
                "remaining": None if task._remaining_time is None else _t(task._remaining_time),
                "strats": [strat_json(w, s) for s in task.available_execution_strategies],
            }
        )
    pools = []
    k = 0
    for pi, p in enumerate(w.spec["pools"]):
        vecs = []
        for wk in p["workers"]:
            vec = []
            for n, q in wk["res"]:
                vec.append([n, k, q])
                k += 1
            vecs.append(vec)
        pools.append({"workers": vecs, "running": w.running[pi], "history": w.history[pi], "profiles": w.loading[pi]})
    return {
        "suite": SUITE,
        "policy": w.spec["policy"],
        "enforce": bool(w.spec["enforce"]) and w.spec["policy"] != "LSF",
        "now": w.now,
        "pools": pools,
        "offer": offer,
    }


def pstrat(p):
    """`Placement.execution_strategy` (the property raises for cancellations)."""
    return p._strategy


def real_decisions(w: World, rec: dict) -> list[dict]:
    """Returned Placements in canonical form (order kept); same shape as the driver's."""
    R = _repo()
    PT = R["Placement"].PlacementType
    pidx = {pool.id: i for i, pool in enumerate(w.worker_pools.worker_pools)}
    out = []
    for p in rec["placements"]:
        task = p.task
        kind = "place" if p.placement_type == PT.PLACE_TASK else "cancel" if p.placement_type == PT.CANCEL_TASK else str(p.placement_type)
        strat = None
        if pstrat(p) is not None:
            strat = w.sid.get(id(pstrat(p)), -1)
        widx = None
        if p.worker_id is not None:
            widx = -1
        out.append(
            {
                "task": list(w.tasks.get(task.unique_name, (-1, -1))),
                "kind": kind,
                "pool": None if p.worker_pool_id is None else pidx.get(p.worker_pool_id, -1),
                "worker": widx,
                "strat": strat,
                "time": None if p.placement_time is None else _t(p.placement_time),
            }
        )
    return out


def compare_case(w: World, rec: dict, reply: dict) -> list[str]:
    if "protocol_error" in reply:
        return [f"driver protocol error: {reply['protocol_error']}"]
    if rec["err"] is not None or "err" in reply:
        real = None if rec["err"] is None else rec["err"].split(":")[0]
        if reply.get("err") != real:
            return [f"exception outcome differs: real={real} model={reply.get('err')}"]
        return []
    dis = []
    real = real_decisions(w, rec)
    if [d["task"] for d in real] != reply["order"]:
        dis.append(f"processing order differs: real={[d['task'] for d in real]} model={reply['order']}")
    if real != reply["placements"]:
        dis.append(f"placements differ: real={real} model={reply['placements']}")
    if rec["virt0"] != reply["virt0"]:
        dis.append(f"virtual cluster after copy differs: real={rec['virt0']} model={reply['virt0']}")
    if rec["virt"] != reply["virt"]:
        dis.append(f"virtual cluster at return differs: real={rec['virt']} model={reply['virt']}")
    if _t(rec["runtime"]) != 0:
        dis.append(f"returned runtime {rec['runtime']} != configured 0")
    return dis


# --------------------------------------------------------------------------
# Model-independent oracles (real objects only)
# --------------------------------------------------------------------------


def _totals(vec_items) -> dict:
    tot = {}
    for r, q in vec_items:
        tot[r.name] = tot.get(r.name, 0) + q
    return tot


def _demand(strategy) -> dict:
    return _totals(strategy.resources._resource_vector.items())


class Occupancy:
    """Independent re-implementation of the fit arithmetic at the level of per-type totals:
    per worker, what is available of each resource type (all instances together)."""

    def __init__(self, w: World):
        self.pools = []  # per pool: list of {type: available}
        for pool in w.worker_pools.worker_pools:
            self.pools.append([_totals(wk.resources._resource_vector.items()) for wk in pool.workers])

    @staticmethod
    def fits_worker(avail: dict, dem: dict) -> bool:
        return all(avail.get(n, 0) >= q for n, q in dem.items())

    def fits_pool(self, pi: int, dem: dict) -> bool:
        return any(self.fits_worker(a, dem) for a in self.pools[pi])

    def fits_anywhere(self, dem: dict) -> bool:
        return any(self.fits_pool(pi, dem) for pi in range(len(self.pools)))

    def place_first_fit(self, pi: int, dem: dict) -> bool:
        for a in self.pools[pi]:
            if self.fits_worker(a, dem):
                for n, q in dem.items():
                    a[n] = a.get(n, 0) - q
                return True
        return False


def prio_key(w: World, task):
    """The priority of the property, computed from the real task only."""
    pol = w.spec["policy"]
    if pol == "EDF":
        return (_t(task.deadline), task.task_graph)
    if pol == "FIFO":
        return (_t(task.release_time),)
    # slack = deadline - now - remaining time, the remaining time taken from the world description (not from
    # Task.remaining_time): what is left of a RUNNING / PREEMPTED task, else the runtime of the slowest strategy
    g, t = w.tasks[task.unique_name]
    ts = w.spec["graphs"][g]["tasks"][t]
    if ts["state"] in ("RUNNING", "PREEMPTED") and ts.get("prev"):
        remaining = ts["prev"]["remaining"]
    else:
        # the strategies the task's profile offers NOW (one may have been added between two invocations)
        remaining = max(_t(s_.runtime) for s_ in task.available_execution_strategies)
    return (_t(task.deadline) - w.now - remaining,)


def charged_mismatch(w: World, rec: dict) -> bool:
    """Did the policy charge its virtual cluster with another strategy than the one it
    reports for some placed task?  (classification of a failure as the class of the former finding D13)"""
    if rec.get("vobj") is None or rec["placements"] is None:
        return False
    charged = {}
    for vp in rec["vobj"].worker_pools:
        for wk in vp.workers:
            for t, s in wk._placed_tasks.items():
                charged[t.unique_name] = s
    for p in rec["placements"]:
        if p.is_placed() and p.task.unique_name in charged and charged[p.task.unique_name] is not pstrat(p):
            return True
    return False


def _class_suffix(w: World, rec: dict) -> str:
    if charged_mismatch(w, rec):
        return " [virtual cluster charged for a strategy other than the reported one]"
    return ""


def oracle_c10(w: World, rec: dict) -> list[str]:
    """Complete, well-formed, jointly feasible, side-effect-free decision."""
    pol = w.spec["policy"]
    if rec["err"]:
        return [f"{pol} schedule() raised {rec['err'].split(':')[0]}"]
    bad = []
    pls = rec["placements"]
    names = [p.task.unique_name for p in pls]
    if len(set(names)) != len(names):
        bad.append(f"{pol} two decisions for one task")
    offered = [t.unique_name for t in rec["offered"] or []]
    for n in names:
        if n not in offered:
            bad.append(f"{pol} decision for a task that was not offered")
    for n in offered:
        if n not in names:
            bad.append(f"{pol} offered task without decision")
    pool_ids = {pool.id: i for i, pool in enumerate(w.worker_pools.worker_pools)}
    for p in pls:
        t = p.task
        if t.state.name in ("RUNNING", "COMPLETED", "CANCELLED"):
            bad.append(f"{pol} decision for a {t.state.name} task")
        if not p.is_placed():
            continue
        if p.worker_pool_id not in pool_ids:
            bad.append(f"{pol} placement names an unknown pool")
            continue
        pool = w.pools[pool_ids[p.worker_pool_id]]
        if p.worker_id is not None and p.worker_id not in {wk.id for wk in pool.workers}:
            bad.append(f"{pol} worker not in the named pool")
        if pstrat(p) is None or not any(s is pstrat(p) for s in t.available_execution_strategies):
            bad.append(f"{pol} strategy does not belong to the task")
        if p.placement_time is None or _t(p.placement_time) < w.now:
            bad.append(f"{pol} placement time before now")
        elif not t.release_time.is_invalid() and _t(p.placement_time) < _t(t.release_time):
            bad.append(f"{pol} placement time before the known release")
    if not bad:
        # joint feasibility: some assignment of the placed tasks to workers of the pools they name
        # keeps every worker within its capacity, together with what is already running
        placed = [(pool_ids[p.worker_pool_id], _demand(pstrat(p))) for p in pls if p.is_placed()]
        occ = Occupancy(w)
        if not _assignable(occ.pools, placed):
            bad.append(f"{pol} reported placements together with running tasks exceed worker capacity" + _class_suffix(w, rec))
    if not rec["pure"]:
        bad.append(f"{pol} live cluster or task state changed by schedule()")
    return sorted(set(bad))


def _assignable(pools, placed) -> bool:
    """Is there an assignment of every placed (pool, demand) to a worker of that pool within
    the per-type availability?  Exhaustive (placed ≤ 8, workers per pool ≤ 3)."""
    if not placed:
        return True
    (pi, dem), rest = placed[0], placed[1:]
    for a in pools[pi]:
        if Occupancy.fits_worker(a, dem):
            for n, q in dem.items():
                a[n] = a.get(n, 0) - q
            ok = _assignable(pools, rest)
            for n, q in dem.items():
                a[n] = a.get(n, 0) + q
            if ok:
                return True
    return False


def oracle_c12(w: World, rec: dict) -> list[str]:
    pol = w.spec["policy"]
    if rec["err"] or not w.spec["enforce"] or pol == "LSF":
        return []
    bad = []
    PT = _repo()["Placement"].PlacementType
    for p in rec["placements"]:
        t = p.task
        fastest = min(_t(s.runtime) for s in t.available_execution_strategies)
        hopeless = _t(t.deadline) < w.now + fastest
        is_cancel = p.placement_type == PT.CANCEL_TASK
        if hopeless and not is_cancel:
            bad.append(f"{pol} hopeless task (deadline < now + fastest runtime) not answered with a cancellation")
        if hopeless and p.placement_type == PT.PLACE_TASK and p.is_placed():
            bad.append(f"{pol} hopeless task placed")
        if not hopeless and is_cancel:
            if _t(t.deadline) == w.now + fastest:
                bad.append(f"{pol} task exactly at the boundary deadline = now + fastest runtime cancelled")
            else:
                bad.append(f"{pol} task that can still meet its deadline cancelled")
    return sorted(set(bad))


def oracle_c13(w: World, rec: dict) -> list[str]:
    """No priority inversion, checked on the real Placements with an independent fit check."""
    pol = w.spec["policy"]
    if rec["err"]:
        return []
    PT = _repo()["Placement"].PlacementType
    bad = []
    pls = rec["placements"]
    keys = [prio_key(w, p.task) for p in pls]
    # (a) decisions come in priority order; equal priorities in the order of the offer
    pos = {t.unique_name: i for i, t in enumerate(rec["offered"] or [])}
    for i in range(len(pls) - 1):
        if keys[i] > keys[i + 1]:
            bad.append(f"{pol} decisions are not in priority order")
        elif keys[i] == keys[i + 1] and pos.get(pls[i].task.unique_name, -1) > pos.get(pls[i + 1].task.unique_name, -1):
            bad.append(f"{pol} equal-priority tasks are not processed in the order they were offered")
    pool_ids = {pool.id: i for i, pool in enumerate(w.worker_pools.worker_pools)}
    single = all(len(pool.workers) == 1 for pool in w.pools)
    for i, p in enumerate(pls):
        if p.placement_type != PT.PLACE_TASK or p.is_placed():
            continue
        if w.spec.get("specific_ids"):
            # the independent fit check works on per-type totals; requests for one specific resource instance are
            # tied to the worker that owns it, so in such worlds only the processing order is judged here (the
            # placements themselves are compared with the model, which knows instances)
            continue
        # account for every placed task of higher or equal priority, in decision order
        occ = Occupancy(w)
        replay_ok = True
        for j, q in enumerate(pls):
            if j == i or q.placement_type != PT.PLACE_TASK or not q.is_placed():
                continue
            if keys[j] <= keys[i]:
                if q.worker_pool_id not in pool_ids or pstrat(q) is None:
                    replay_ok = False
                    continue
                if not occ.place_first_fit(pool_ids[q.worker_pool_id], _demand(pstrat(q))):
                    replay_ok = False
        if not replay_ok:
            bad.append(f"{pol} a higher-priority reported placement does not fit the cluster" + _class_suffix(w, rec))
            continue
        for s in p.task.available_execution_strategies:
            if occ.fits_anywhere(_demand(s)):
                where = "single-worker pools" if single else "multi-worker pool"
                bad.append(
                    f"{pol} task left unplaced although one of its strategies fits once the placed tasks of higher or equal priority are accounted for ({where})"
                    + _class_suffix(w, rec)
                )
                break
    return sorted(set(bad))


def oracle_for(prop, w, rec) -> list[str]:
    if prop == "C10":
        return oracle_c10(w, rec)
    if prop == "C12":
        return oracle_c12(w, rec)
    if prop == "C13":
        return oracle_c13(w, rec)
    return []


# --------------------------------------------------------------------------
# Generators
# --------------------------------------------------------------------------

GRAPH_NAMES = ["G0", "G1", "G10", "G2", "Ga", "GA", "g", "G", "G01", "H"]
RES = ["CPU", "GPU", "MEM"]


def gen_world(rng, kind: str, policy: str | None = None, widened: bool = False) -> dict:
    """A world spec.  `kind`: 'prio' (contention, ties, several strategies/pools: C13),
    'mix' (states and occupancy: C10), 'deadline' (deadlines around now + fastest: C12)."""
    policy = policy or rng.choice(POLICIES)
    now = rng.choice([0, 3, 7, 1000, 2000])
    n_pools = rng.choice([1, 1, 2])
    if kind == "prio" and rng.random() < 0.35:
        shape = [1] * rng.randint(1, 2)  # single-worker pools: the oracle's exact regime
    else:
        shape = [rng.randint(1, 3) for _ in range(n_pools)]
    types = RES[: rng.randint(1, 3)]
    pools, order = [], []
    for pi, nw in enumerate(shape):
        ws = []
        for wi in range(nw):
            res = []
            for ty in types:
                if rng.random() < (0.85 if ty == "CPU" else 0.5):
                    res.append([ty, rng.randint(0 if rng.random() < 0.1 else 1, 3)])
                    if rng.random() < 0.2:
                        res.append([ty, rng.randint(1, 2)])  # a second instance of the type
            if not res:
                res = [["CPU", 1]]
            wk = {"name": f"W{pi}_{wi}", "res": res}
            ws.append(wk)
            order.append(wk)
        pools.append({"name": f"P{pi}", "workers": ws})
    avail = []
    for wk in order:
        tot = {}
        for n, q in wk["res"]:
            tot[n] = tot.get(n, 0) + q
        avail.append(tot)

    def gen_req():
        r = rng.random()
        if r < 0.03:
            return []
        req = []
        for ty in rng.sample(types, rng.randint(1, min(2, len(types)))):
            req.append([ty, 0 if rng.random() < 0.04 else rng.randint(1, 2 if rng.random() < 0.85 else 4)])
        return req

    max_tasks = rng.randint(2, 8) if kind == "prio" else rng.randint(1, 7 if not widened else 9)
    n_graphs = rng.randint(1, 4)
    names = rng.sample(GRAPH_NAMES, n_graphs)
    # few distinct values => many ties
    dl_pool = [now + d for d in rng.sample(range(-2, 12), rng.randint(1, 4))]
    rel_pool = [max(0, now - d) for d in rng.sample(range(0, 6), rng.randint(1, 3))]
    graphs, total = [], 0
    for gi in range(n_graphs):
        if total >= max_tasks:
            break
        k = rng.randint(1, min(4, max_tasks - total))
        total += k
        shape_g = rng.choice(["indep"] * (8 if kind == "prio" else 3) + ["chain", "fork"])
        edges = []
        if shape_g == "chain":
            edges = [[i, i + 1] for i in range(k - 1)]
        elif shape_g == "fork":
            edges = [[0, i] for i in range(1, k)]
        tasks = []
        states = {}
        for ti in range(k):
            ns = rng.choice([1, 1, 2, 2, 3])
            strats = [{"runtime": rng.randint(1, 5), "req": gen_req()} for _ in range(ns)]
            t = {"name": f"T{ti}", "ts": 0, "strats": strats}
            parents = [a for a, b in edges if b == ti]
            pst = [states[a] for a in parents]
            r = rng.random()
            if all(s == "COMPLETED" for s in pst):
                if kind == "mix":
                    st = "RUNNING" if r < 0.25 else "PREEMPTED" if r < 0.35 else "COMPLETED" if r < 0.45 and ti < k - 1 else "LATE" if r < 0.5 else "VIRTUAL" if r < 0.55 and parents else "RELEASED"
                else:
                    st = "RUNNING" if r < 0.12 else "PREEMPTED" if r < 0.2 else "COMPLETED" if r < 0.3 and ti < k - 1 else "RELEASED"
            else:
                st = "VIRTUAL"
            release = rng.choice(rel_pool)
            if st == "LATE":
                st, release = "RELEASED", now + rng.randint(1, 4)
            t["release"] = release
            if st in ("RUNNING", "PREEMPTED", "COMPLETED"):
                opts = []
                for wi in range(len(order)):
                    for si, s_ in enumerate(strats):
                        dem = {}
                        for n, q in s_["req"]:
                            dem[n] = dem.get(n, 0) + q
                        if st != "RUNNING" or all(avail[wi].get(n, 0) >= q for n, q in dem.items()):
                            opts.append((wi, si, dem))
                if not opts:
                    st = "RELEASED"
                else:
                    wi, si, dem = rng.choice(opts)
                    started = rng.randint(release, max(release, now))
                    started = min(started, now) if release <= now else release
                    if started < release:
                        started = release
                    t["prev"] = {"w": wi, "s": si, "time": started, "remaining": rng.randint(0 if st == "PREEMPTED" else 1, 6), "finish": max(started, now)}
                    if started > now:
                        st = "RELEASED"
                        del t["prev"]
                    elif st == "RUNNING":
                        for n, q in dem.items():
                            avail[wi][n] = avail[wi].get(n, 0) - q
            states[ti] = st
            t["state"] = st
            fastest = min(s["runtime"] for s in strats)
            if kind == "deadline" or (kind == "mix" and rng.random() < 0.3):
                d = now + fastest + rng.choice([-2, -1, -1, 0, 0, 1, 2, 8])
            else:
                d = rng.choice(dl_pool)
            t["deadline"] = d
            if d >= 0 and d % 1000 == 0 and rng.random() < 0.5:
                t["dl_ms"] = True  # the same instant, given in milliseconds
            tasks.append(t)
        graphs.append({"name": names[gi], "tasks": tasks, "edges": edges})
    world = {
        "policy": policy,
        "enforce": policy != "LSF" and rng.random() < (0.9 if kind == "deadline" else 0.4),
        "now": now,
        "pools": pools,
        "graphs": graphs,
        "uuid_seed": rng.randint(0, 10**9),
    }
    r2 = common.Rng(0, "greedy-flavours/" + json.dumps(world, sort_keys=True))
    for g in graphs:
        for t in g["tasks"]:
            rts = [s_["runtime"] for s_ in t["strats"]]
            if t["state"] == "RELEASED" and t["release"] <= now and len(set(rts)) > 1 and r2.random() < 0.3:
                slow = max(rts)
                fast = [i for i, x in enumerate(rts) if x < slow]
                t["unsched"] = {"w": r2.randrange(len(order)), "s": r2.choice(fast), "time": r2.randint(t["release"], now)}
    if r2.random() < 0.3:
        world["round2"] = True
        if r2.random() < 0.5:
            world["round2_grow"] = {"pick": r2.randrange(8), "extra": r2.randint(1, 6)}
    if r2.random() < 0.35:
        # some finished tasks really ran on their worker and left (holes in the per-instance ledger)
        for g in graphs:
            for t in g["tasks"]:
                if t["state"] == "COMPLETED" and t.get("prev") and r2.random() < 0.7:
                    t["prev"]["was_resident"] = True
    if r2.random() < 0.25:
        # strategies of different batch sizes inside one profile (larger batches are often the FASTER ones): which
        # strategy is the fastest / slowest is a matter of runtime only
        for g in graphs:
            for t in g["tasks"]:
                if len(t["strats"]) > 1:
                    order_ = sorted(range(len(t["strats"])), key=lambda i_: t["strats"][i_]["runtime"])
                    sizes = sorted(r2.sample([1, 2, 3, 4, 6, 8], len(order_)), reverse=True)
                    for i_, b_ in zip(order_, sizes):
                        t["strats"][i_]["bs"] = b_
    if r2.random() < 0.25:
        # one or two work profiles are being loaded on workers when the policy runs (they hold resources)
        world["loading"] = []
        for _ in range(r2.randint(1, 2)):
            wi_ = r2.randrange(len(order))
            tys = [n_ for n_, _q in order[wi_]["res"]]
            world["loading"].append({"w": wi_, "runtime": r2.randint(1, 5), "req": [[r2.choice(tys), r2.randint(1, 2)]]})
    if kind == "mix" and r2.random() < 0.35:
        # some strategies ask for one specific resource instance (by id) instead of any instance of the type; never
        # both forms of one type inside one strategy (that combination is the known finding C05-OV)
        world["specific_ids"] = True
        inst, k_ = {}, 0
        for p_ in pools:
            for wk in p_["workers"]:
                for n_, q_ in wk["res"]:
                    inst.setdefault(n_, []).append((k_, q_))
                    k_ += 1
        for g in graphs:
            for t in g["tasks"]:
                if t["state"] in ("RUNNING", "PREEMPTED", "COMPLETED"):
                    continue   # their previous placement was generated against per-type totals
                for s_ in t["strats"]:
                    for e in s_["req"]:
                        if len(e) == 2 and e[0] in inst and r2.random() < 0.4:
                            k_, q_ = r2.choice(inst[e[0]])
                            e.append(k_)
                            if e[1] > q_ and r2.random() < 0.7:
                                e[1] = max(1, q_)
    if r2.random() < 0.2:
        # the same world on a 1000x time scale, with some runtimes / deadlines written in milliseconds: a profile
        # then mixes units (e.g. 3 ms next to 4000 us), which must not change any decision
        world["now"] = now * 1000
        for g in graphs:
            for t in g["tasks"]:
                t["release"] *= 1000
                t["deadline"] *= 1000
                if t["deadline"] >= 0 and r2.random() < 0.5:
                    t["dl_ms"] = True
                else:
                    t.pop("dl_ms", None)
                for s_ in t["strats"]:
                    s_["runtime"] *= 1000
                    if r2.random() < 0.5:
                        s_["rt_ms"] = True
                for k_ in ("prev", "unsched"):
                    if t.get(k_):
                        for f_ in ("time", "remaining", "finish"):
                            if f_ in t[k_]:
                                t[k_][f_] *= 1000
    return world


def _task(name, strats, deadline, release=0, state="RELEASED", prev=None):
    t = {"name": name, "ts": 0, "state": state, "strats": strats, "deadline": deadline, "release": release}
    if prev:
        t["prev"] = prev
    return t


def _st(rt, **req):
    return {"runtime": rt, "req": [[k, v] for k, v in req.items()]}


def corpus() -> list[dict]:
    """Hand-written inputs: the former finding D13's witness, tie and boundary cases. Always run first."""
    out = []
    two_workers = [{"name": "P0", "workers": [{"name": "W0", "res": [["CPU", 1]]}, {"name": "W1", "res": [["GPU", 1]]}]}]
    # Witness of the former finding D13 (fixed in /repo 366b4de), kept so that the check reports it
    # again should it return: A tests [GPU, CPU]; LSF used to charge the CPU of W0 while reporting
    # the GPU strategy; B (CPU) was then left unplaced although the CPU was free and C (GPU) was
    # placed on the "taken" GPU.
    for pol in POLICIES:
        out.append(
            {
                "policy": pol,
                "enforce": False,
                "now": 0,
                "pools": two_workers,
                "graphs": [
                    {"name": "G0", "tasks": [_task("A", [_st(2, GPU=1), _st(2, CPU=1)], 5)], "edges": []},
                    {"name": "G1", "tasks": [_task("B", [_st(2, CPU=1)], 6)], "edges": []},
                    {"name": "G2", "tasks": [_task("C", [_st(2, GPU=1)], 7)], "edges": []},
                ],
                "uuid_seed": 1,
            }
        )
    # ties: equal deadlines broken by graph name ("G10" < "G2" as strings), equal releases keep offer order
    for pol in POLICIES:
        out.append(
            {
                "policy": pol,
                "enforce": False,
                "now": 3,
                "pools": [{"name": "P0", "workers": [{"name": "W0", "res": [["CPU", 2]]}]}],
                "graphs": [
                    {"name": "G2", "tasks": [_task("A", [_st(2, CPU=1)], 9, release=1)], "edges": []},
                    {"name": "G10", "tasks": [_task("B", [_st(2, CPU=1)], 9, release=1)], "edges": []},
                    {"name": "G1", "tasks": [_task("C", [_st(2, CPU=1)], 9, release=1)], "edges": []},
                ],
                "uuid_seed": 2,
            }
        )
    # boundary of the admission test: deadline = now + fastest (kept), one less (cancelled)
    for pol in ("EDF", "FIFO"):
        out.append(
            {
                "policy": pol,
                "enforce": True,
                "now": 5,
                "pools": [{"name": "P0", "workers": [{"name": "W0", "res": [["CPU", 4]]}]}],
                "graphs": [
                    {"name": "G0", "tasks": [_task("A", [_st(4, CPU=1), _st(2, CPU=1)], 7, release=5)], "edges": []},
                    {"name": "G1", "tasks": [_task("B", [_st(4, CPU=1), _st(2, CPU=1)], 6, release=5)], "edges": []},
                    {"name": "G2", "tasks": [_task("C", [_st(3, CPU=9)], 8, release=2)], "edges": []},
                ],
                "uuid_seed": 3,
            }
        )
    # partially occupied two-pool cluster, second strategy needed, a PREEMPTED task with its own remaining time
    for pol in POLICIES:
        out.append(
            {
                "policy": pol,
                "enforce": False,
                "now": 7,
                "pools": [
                    {"name": "P0", "workers": [{"name": "W0", "res": [["CPU", 2], ["GPU", 1], ["GPU", 1]]}]},
                    {"name": "P1", "workers": [{"name": "W1", "res": [["CPU", 1]]}, {"name": "W2", "res": [["CPU", 3]]}]},
                ],
                "graphs": [
                    {
                        "name": "G0",
                        "tasks": [
                            _task("R", [_st(5, CPU=2)], 30, release=2, state="RUNNING", prev={"w": 0, "s": 0, "time": 4, "remaining": 2, "finish": 7}),
                            _task("X", [_st(3, GPU=2), _st(6, CPU=1)], 20, release=3),
                        ],
                        "edges": [],
                    },
                    {"name": "G1", "tasks": [_task("Y", [_st(3, CPU=3, GPU=1), _st(4, CPU=3)], 15, release=3)], "edges": []},
                    {"name": "Ga", "tasks": [_task("Z", [_st(9, CPU=1)], 15, release=1, state="PREEMPTED", prev={"w": 1, "s": 0, "time": 2, "remaining": 1, "finish": 7})], "edges": []},
                    {"name": "g", "tasks": [_task("V", [_st(1, CPU=2)], 14, release=6)], "edges": []},
                ],
                "uuid_seed": 4,
            }
        )
    return out


KIND = {"C10": "mix", "C12": "deadline", "C13": "prio"}


def counts_for(prop: str, tier: str) -> int:
    quick = {"C10": 3000, "C12": 2000, "C13": 6000}
    thorough = {"C10": 60000, "C12": 40000, "C13": 150000}
    return (quick if tier == "quick" else thorough)[prop]


def gen_specs(prop: str, rng, tier: str, widened=False) -> list[dict]:
    n = counts_for(prop, tier)
    r = rng.sub(f"greedy/{prop}/{'w' if widened else 'n'}")
    specs = [s for s in corpus() if prop != "C12" or s["policy"] != "LSF"]
    kinds = [KIND[prop], KIND[prop], "prio", "mix", "deadline"] if not widened else ["prio", "mix", "deadline"]
    pols = POLICIES if prop != "C12" else ("EDF", "FIFO")
    while len(specs) < n:
        specs.append(gen_world(r, r.choice(kinds), policy=pols[len(specs) % len(pols)], widened=widened))
    return specs


def canonical_case(spec: dict) -> dict:
    return {k: spec[k] for k in ("policy", "enforce", "now", "pools", "graphs")}


# --------------------------------------------------------------------------
# One run
# --------------------------------------------------------------------------


def run_case(spec: dict):
    w = build_world(spec)
    rec = real_schedule(w)
    if spec.get("round2") and rec["err"] is None and rec["placements"] is not None:
        # second invocation on the SAME cluster and workload objects: the tasks placed by the first invocation
        # are withdrawn (cancelled before their placement is applied), everybody else is offered again; what is
        # compared and judged is the second decision
        for p in rec["placements"]:
            if p.is_placed():
                try:
                    p.task.cancel(US(w.now))
                except Exception:
                    pass
        grow = spec.get("round2_grow")
        if grow is not None:
            # between the two invocations a slower strategy is registered on the (shared, mutable) work profile of a
            # task that is still waiting: whatever was memoised about the task during the first invocation is stale
            R = _repo()
            losers = [p.task for p in rec["placements"] if not p.is_placed() and p.task.state.name == "RELEASED"]
            if losers:
                task = losers[grow["pick"] % len(losers)]
                strats = list(task.available_execution_strategies)
                if strats:
                    base = strats[0]
                    slow = max(_t(s_.runtime) for s_ in strats) + grow["extra"]
                    so = R["ExecutionStrategy"](resources=base.resources, batch_size=1, runtime=US(slow))
                    w.sid[id(so)] = max(w.sid.values(), default=-1) + 1
                    w.strat_spec[w.sid[id(so)]] = None
                    w._keep = getattr(w, "_keep", []) + [so]
                    task.available_execution_strategies.add_strategy(so)
        rec = real_schedule(w)
    case = driver_case(w, rec) if rec["offered"] is not None else None
    return w, rec, case


def signature(prop: str, what: str) -> str:
    return f"greedy {prop}: {what}"


CHUNK = 1500


def run(prop: str, chk, rng, tier: str) -> list[str]:
    prop = prop.upper()
    t0 = _time.time()
    specs = gen_specs(prop, rng, tier)
    disagreements = []
    for base in range(0, len(specs), CHUNK):  # bounded memory: real worlds are dropped chunk by chunk
        disagreements += _run_chunk(prop, chk, specs[base : base + CHUNK], base)
    chk.extra.setdefault("planner_wall_s", {})[f"greedy/{prop}"] = round(_time.time() - t0, 1)
    return disagreements


def _run_chunk(prop: str, chk, specs: list[dict], base: int) -> list[str]:
    worlds, cases = [], []
    for spec in specs:
        w, rec, case = run_case(spec)
        worlds.append((spec, w, rec))
        cases.append(case if case is not None else {"suite": SUITE})
    replies = common.run_driver(cases) if cases else []
    disagreements = []
    for k, ((spec, w, rec), reply) in enumerate(zip(worlds, replies)):
        wi = base + k
        pol = spec["policy"]
        n_off = len(rec["offered"] or [])
        pls = rec["placements"] or []
        placed = sum(1 for p in pls if p.is_placed())
        unplaced = sum(1 for p in pls if not p.is_placed())
        keys = [prio_key(w, p.task) for p in pls]
        ties = len(keys) - len(set(keys))
        occupied = any(w.running[pi] for pi in range(len(w.pools)))
        chk.case({"planner": NAME, "spec": canonical_case(spec)}, nontrivial=(rec["err"] is None and n_off >= 2 and placed >= 1))
        chk.count(f"greedy:{pol}")
        chk.count(f"greedy:offered={min(n_off, 6)}")
        chk.count(f"greedy:placed={min(placed, 5)}")
        if unplaced:
            chk.count("greedy:with-unplaced-or-cancelled")
        if ties:
            chk.count("greedy:priority-ties")
        if occupied:
            chk.count("greedy:partially-occupied")
        if len(w.pools) > 1:
            chk.count("greedy:multi-pool")
        if any(len(p.workers) > 1 for p in w.pools):
            chk.count("greedy:multi-worker-pool")
        if spec["enforce"]:
            chk.count("greedy:enforce_deadlines")
        if any(p.placement_type != _repo()["Placement"].PlacementType.PLACE_TASK for p in pls):
            chk.count("greedy:with-cancellation")
        if rec["err"]:
            chk.count("greedy:raised")
        if rec["n_offer_calls"] != 1:
            disagreements.append(f"[greedy case {wi}] get_schedulable_tasks called {rec['n_offer_calls']} times")
        chk.traces_validated += 1
        for x in compare_case(w, rec, reply):
            disagreements.append(f"[greedy case {wi} {pol}] {x} :: spec={json.dumps(canonical_case(spec))[:700]}")
        if rec["err"] is None and "accounted" in reply:
            chk.count("greedy:virtual==reported-accounting" if reply["accounted"] else "greedy:virtual!=reported-accounting")
        for b in oracle_for(prop, w, rec):
            chk.violation(signature(prop, b), {"planner": NAME, "prop": prop, "spec": spec, "what": b})
    return disagreements


def search(prop: str, chk, rng, tier: str) -> None:
    """Failing-input search on the real code only (no Lean): widened generator + oracles."""
    prop = prop.upper()
    for spec in gen_specs(prop, rng, tier, widened=True):
        try:
            w, rec, _ = run_case(spec)
        except Exception:
            continue
        for b in oracle_for(prop, w, rec):
            chk.violation(signature(prop, b), {"planner": NAME, "prop": prop, "spec": spec, "what": b}, found_input=True)


def replay(rp: dict) -> int:
    """Re-run one replay against the real code alone. 1 = the recorded failure reproduces."""
    spec, prop = rp["spec"], rp["prop"]
    w, rec, _ = run_case(spec)
    sigs = [signature(prop, b) for b in oracle_for(prop, w, rec)]
    want = rp.get("signature")
    hit = [s for s in sigs if want is None or s == want]
    for s in hit:
        print(f"reproduced: {s}")
    for s in sigs:
        if s not in hit:
            print(f"note: another failing class on this input: {s}")
    if rec["placements"] is not None:
        for d in real_decisions(w, rec):
            print(f"  decision: {d}")
    elif rec["err"]:
        print(f"  schedule() raised {rec['err']}")
    return 1 if hit else 0
