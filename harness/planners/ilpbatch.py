"""Planner plugin: ILPScheduler in BATCHING mode (`ILPScheduler(batching=True)`,
schedulers/ilp_scheduler.py: `BatchTask`, `_create_batch_task_variables`, the
BatchTask branches of `_add_task_dependency_constraints` / `_add_resource_constraints`
/ `_add_objective`, and the merge of the per-BatchTask Placements back to tasks in
`schedule()`), for the planner clauses of C10, C11, C12.

It reuses the machinery of `harness/planners/ilp.py` (world construction, capture of
the Gurobi model, canonical forms, the model-independent oracles — which count a batch
once) and adds

* a generator of worlds in which several tasks share a `WorkProfile` whose strategies
  have batch sizes > 1, with RUNNING / SCHEDULED tasks that were placed as batches by
  an earlier invocation (members share one `BatchStrategy` object);
* the extraction of the Lean instance of `Model/IlpBatch.lean` (member tasks, profiles
  with the *iteration order of the per-profile task set* that the real call used);
* the comparison of the captured constraint system with `genB`, of the BatchTasks the
  real code formed with the model's batch formation, and of the returned Placements
  with `decodeB` (BatchTask -> member tasks merge included).

`run` returns the correspondence disagreements; oracle failures go through
`chk.violation` (signatures start with `ilp C1x: batching: `).
"""
from __future__ import annotations

import json
import time as _time

from harness import common
from harness.planners import _worlds, ilp

NAME = "ilpbatch"
PROPS = {"C10", "C11", "C12"}
SUITE = "mip_ilp_batch"
USE_LEAN = True

_t = ilp._t

# --------------------------------------------------------------------------
# Generator
# --------------------------------------------------------------------------


def _req_totals(req):
    d = {}
    for r, q in req:
        d[r] = d.get(r, 0) + q
    return d


def gen_world(rng, kind: str, _depth: int = 0) -> dict:
    """A batching world spec. `kind`: 'mix' (C10), 'dag' (C11), 'deadline' (C12)."""
    now = rng.choice([0, 0, 3, 7])
    n_pools = 1 if rng.random() < 0.6 else 2
    n_workers = rng.randint(1, 3)
    pools = [{"name": f"P{i}", "workers": []} for i in range(n_pools)]
    for i in range(n_workers):
        res = [["CPU", rng.randint(1, 4)]]
        if rng.random() < 0.4:
            res.append(["GPU", rng.randint(1, 2)])
        if rng.random() < 0.1:
            res.append(["CPU", 1])
        pools[i % n_pools]["workers"].append({"name": f"W{i}", "res": res})
    pools = [p for p in pools if p["workers"]]
    order = [wk for p in pools for wk in p["workers"]]
    totals = [_req_totals(wk["res"]) for wk in order]
    has_gpu = any("GPU" in t for t in totals)

    flags = {
        "enforce_deadlines": True,
        "retract": rng.random() < 0.3,
        "release_taskgraphs": rng.random() < (0.5 if kind == "dag" else 0.2),
        "lookahead": rng.choice([0, 0, 4, 30]),
        "goal": "max_goodput",
        "batching": True,
    }
    if kind == "deadline":
        flags["release_taskgraphs"] = False
    if kind == "mix" and rng.random() < 0.04:
        flags["goal"] = "max_slack"  # batching + max_slack: see finding C10-ILPB-4
        flags["enforce_deadlines"] = rng.random() < 0.5

    # profiles: 1-3, strategies with batch sizes 1-3
    n_prof = rng.randint(1, 3)
    profiles = {}
    for pi in range(n_prof):
        ns = rng.choice([1, 2, 2, 2, 3])
        strats = []
        for si in range(ns):
            req = [["CPU", rng.randint(1, 2)]]
            if has_gpu and rng.random() < 0.25:
                req.append(["GPU", 1])
            if has_gpu and rng.random() < 0.08:
                req = [["GPU", 1]]
            bs = rng.choice([1, 1, 2, 2, 3])
            strats.append({"batch": bs, "runtime": rng.randint(1, 5) + (bs - 1) * rng.randint(0, 2), "req": req})
        if all(s["batch"] == 1 for s in strats) and rng.random() < 0.7:
            strats[-1]["batch"] = 2
        profiles[f"PR{pi}"] = strats

    n_graphs = rng.randint(1, 4)
    max_tasks = 6
    shapes = []
    total = 0
    for gi in range(n_graphs):
        if total >= max_tasks:
            break
        k = rng.randint(1, min(3, max_tasks - total))
        total += k
        shape = rng.choice(["chain", "chain", "dag", "indep"])
        edges = []
        if shape == "chain":
            edges = [[i, i + 1] for i in range(k - 1)]
        elif shape == "dag":
            for a in range(k):
                for b in range(a + 1, k):
                    if rng.random() < 0.5:
                        edges.append([a, b])
        shapes.append((k, edges))
    horizon = rng.randint(6, 14)
    same_level_profiles = rng.random() < 0.8
    graphs = []
    for gi, (k, edges) in enumerate(shapes):
        tasks = []
        for ti in range(k):
            if same_level_profiles and rng.random() < 0.85:
                pname = f"PR{ti % n_prof}"
            else:
                pname = f"PR{rng.randint(0, n_prof - 1)}"
            tasks.append({"name": f"T{ti}", "ts": 0, "profile": pname, "strats": profiles[pname]})
        graphs.append({"name": f"G{gi}", "tasks": tasks, "edges": edges})

    booked = [[] for _ in order]

    def fits(wi, req, s0, e0):
        reqd = _req_totals(req)
        if any(totals[wi].get(rr, 0) < q for rr, q in reqd.items()):
            return False
        for tau in [s0] + [b[0] for b in booked[wi] if s0 <= b[0] < e0]:
            use = dict(reqd)
            for (bs_, be, breq) in booked[wi]:
                if bs_ <= tau < be:
                    for rr, q in breq.items():
                        use[rr] = use.get(rr, 0) + q
            if any(q > totals[wi].get(rr, 0) for rr, q in use.items()):
                return False
        return True

    # states, level by level (index order is a topological order in every graph)
    states = {}
    batch_label = [0]
    max_k = max(k for k, _ in shapes)
    for ti in range(max_k):
        want = {}
        for gi, (k, edges) in enumerate(shapes):
            if ti >= k:
                continue
            pst = [states[(gi, a)] for a, b in edges if b == ti]
            r = rng.random()
            if all(s == "COMPLETED" for s in pst):
                st = "COMPLETED" if r < 0.15 and ti < k - 1 else "RUNNING" if r < 0.35 else "SCHEDULED" if r < 0.5 else "RELEASED"
            elif all(s in ("COMPLETED", "RUNNING", "SCHEDULED") for s in pst) and r < 0.25 and (not flags["retract"] or flags["lookahead"] == 30):
                st = "SCHEDULED"
            else:
                st = "VIRTUAL"
            want[gi] = (st, all(s == "COMPLETED" for s in pst))
        # group RUNNING / SCHEDULED tasks of this level by profile into earlier batches
        for st in ("RUNNING", "SCHEDULED"):
            by_prof = {}
            for gi, (s_, _) in want.items():
                if s_ == st:
                    by_prof.setdefault(graphs[gi]["tasks"][ti]["profile"], []).append(gi)
            for pname, gis in by_prof.items():
                gis = list(gis)
                while gis:
                    strats = profiles[pname]
                    si = rng.randint(0, len(strats) - 1)
                    s_ = strats[si]
                    size = rng.randint(1, min(s_["batch"], len(gis)))
                    members, gis = gis[:size], gis[size:]
                    rt = s_["runtime"]
                    opts = []
                    for wi in range(len(order)):
                        if st == "RUNNING":
                            started = max(0, now - rng.randint(0, max(0, rt - 1)))
                            remaining = max(1, rt - (now - started))
                            if fits(wi, s_["req"], now, now + remaining):
                                opts.append((wi, started, remaining))
                        else:
                            at = max(0, now + rng.choice([-2, -1, 0, 0, 1, 2, 3, 5]))
                            if fits(wi, s_["req"], max(at, now), max(at, now) + rt):
                                opts.append((wi, at, rt))
                    if not opts:
                        for gi in members:
                            want[gi] = ("RELEASED" if want[gi][1] else "VIRTUAL", want[gi][1])
                        continue
                    wi, at, rem = rng.choice(opts)
                    batch_label[0] += 1
                    if st == "RUNNING":
                        booked[wi].append((now, now + rem, _req_totals(s_["req"])))
                    else:
                        booked[wi].append((max(at, now), max(at, now) + rem, _req_totals(s_["req"])))
                    for gi in members:
                        t = graphs[gi]["tasks"][ti]
                        rel = max(0, min(at, now - rng.randint(0, 3)))
                        t["release"] = rel
                        if st == "RUNNING":
                            t["prev"] = {"w": wi, "s": si, "time": at, "sched_at": rel, "remaining": rem, "batch": batch_label[0]}
                        else:
                            t["prev"] = {"w": wi, "s": si, "time": at, "sched_at": min(max(0, now - 1), at), "batch": batch_label[0]}
        for gi, (st, _) in want.items():
            t = graphs[gi]["tasks"][ti]
            states[(gi, ti)] = st
            t["state"] = st
            if st == "VIRTUAL":
                t["release"] = None if rng.random() < 0.6 else now + rng.randint(0, 6)
            elif st == "RELEASED":
                t["release"] = max(0, now - rng.randint(0, 3))
                if rng.random() < 0.15 and flags["lookahead"] > 0:
                    t["release"] = now + rng.randint(1, 4)
            elif st == "COMPLETED":
                t["release"] = max(0, now - rng.randint(0, 3))
                batch_label[0] += 1
                wi = rng.randint(0, len(order) - 1)
                t["prev"] = {"w": wi, "s": 0, "time": t["release"], "sched_at": t["release"], "finish": now, "batch": batch_label[0]}
            # deadline
            fastest = min(s["runtime"] for s in t["strats"])
            r = rng.random()
            if kind == "deadline":
                d = now + fastest + rng.choice([-2, -1, 0, 1, 2, 3, 8])
            elif r < 0.08:
                d = now + fastest - rng.randint(0, 2)
            elif r < 0.3:
                d = now + 1 + fastest + rng.randint(0, 2)
            else:
                d = now + rng.randint(fastest + 1, max(fastest + 1, horizon + 3 * ti))
            if rng.random() < 0.5 and ti > 0 and kind != "deadline":
                d = max(d, now + horizon + 3 * ti)  # same-level tasks often share a loose deadline
            t["deadline"] = max(d, 0)
    # size guard: the sandbox's Gurobi licence allows ~200 general constraints, i.e. about 7
    # BatchTasks (4 indicator rows per ordered pair); estimate an upper bound and retry
    est = 0
    for pname, strats in profiles.items():
        n = sum(1 for g in graphs for t in g["tasks"] if t["profile"] == pname and t["state"] != "COMPLETED")
        est += sum(max(0, n - s["batch"] + 1) for s in strats)
    if est > 7 and _depth < 30:
        return gen_world(rng, kind, _depth + 1)
    return {
        "now": now,
        "pools": pools,
        "profiles": profiles,
        "graphs": graphs,
        "flags": flags,
        "allowed0": [],
        "uuid_seed": rng.randint(0, 10**9),
    }


def corpus() -> list[dict]:
    """Hand-written batching worlds: the shapes behind past misses and the known findings."""

    def st(rt, bs=1, cpu=1):
        return {"batch": bs, "runtime": rt, "req": [["CPU", cpu]]}

    def task(name, state, profile, profiles, deadline, release=0, prev=None):
        t = {"name": name, "ts": 0, "state": state, "profile": profile, "strats": profiles[profile], "deadline": deadline, "release": release}
        if prev:
            t["prev"] = prev
        return t

    one_pool = lambda cpu: [{"name": "P0", "workers": [{"name": "W0", "res": [["CPU", cpu]]}]}]
    flags = {"enforce_deadlines": True, "retract": False, "release_taskgraphs": False, "lookahead": 0, "goal": "max_goodput", "batching": True}
    out = []
    # (seeded C11-3) two chains Camera -> Perception offered whole; the batch-of-2 Camera variant is
    # enumerated first but too slow for the children: the optimum uses the two batch-of-1 variants
    pr = {"Cam": [st(10, 1, 10), st(25, 2, 12)], "Per": [st(10, 1, 10)]}
    out.append(
        {
            "now": 0,
            "pools": one_pool(20),
            "profiles": pr,
            "graphs": [
                {"name": f"G{i}", "tasks": [task("Cam", "RELEASED", "Cam", pr, 32), task("Per", "VIRTUAL", "Per", pr, 32, release=None)], "edges": [[0, 1]]}
                for i in (1, 2)
            ],
            "flags": dict(flags, release_taskgraphs=True),
            "allowed0": [],
            "uuid_seed": 11,
        }
    )
    # the same with three chains and a batch-of-3 variant (7 BatchTasks: the licence limit)
    pr = {"Cam": [st(4, 1, 2), st(8, 3, 3)], "Per": [st(3, 1, 2)]}
    out.append(
        {
            "now": 0,
            "pools": one_pool(6),
            "profiles": pr,
            "graphs": [
                {"name": f"G{i}", "tasks": [task("Cam", "RELEASED", "Cam", pr, 12), task("Per", "VIRTUAL", "Per", pr, 12, release=None)], "edges": [[0, 1]]}
                for i in (1, 2, 3)
            ],
            "flags": dict(flags, release_taskgraphs=True),
            "allowed0": [],
            "uuid_seed": 12,
        }
    )
    # a RUNNING batch of two next to two new arrivals of the same profile (C10-ILPB-1: the running
    # batch holds no capacity in the model)
    pr = {"A": [st(6, 2, 2)]}
    prev = {"w": 0, "s": 0, "time": 2, "sched_at": 1, "remaining": 5, "batch": 1}
    out.append(
        {
            "now": 3,
            "pools": one_pool(3),
            "profiles": pr,
            "graphs": [
                {"name": "G0", "tasks": [task("T", "RUNNING", "A", pr, 40, release=1, prev=dict(prev))], "edges": []},
                {"name": "G1", "tasks": [task("T", "RUNNING", "A", pr, 40, release=1, prev=dict(prev))], "edges": []},
                {"name": "G2", "tasks": [task("T", "RELEASED", "A", pr, 40, release=3)], "edges": []},
                {"name": "G3", "tasks": [task("T", "RELEASED", "A", pr, 40, release=3)], "edges": []},
            ],
            "flags": dict(flags),
            "allowed0": [],
            "uuid_seed": 13,
        }
    )
    # child offered ahead (lookahead) of a RUNNING parent that still needs 5 (C11-ILPB-1)
    pr = {"A": [st(6, 1, 1)], "B": [st(2, 1, 1)]}
    out.append(
        {
            "now": 3,
            "pools": one_pool(4),
            "profiles": pr,
            "graphs": [
                {
                    "name": "G0",
                    "tasks": [
                        task("P", "RUNNING", "A", pr, 40, release=1, prev={"w": 0, "s": 0, "time": 2, "sched_at": 1, "remaining": 5, "batch": 1}),
                        task("C", "VIRTUAL", "B", pr, 40, release=None),
                    ],
                    "edges": [[0, 1]],
                }
            ],
            "flags": dict(flags, lookahead=30),
            "allowed0": [],
            "uuid_seed": 14,
        }
    )
    # task-by-task mode, second-level task whose parent completed: its graph is "allowed to miss
    # deadlines" and the batching branch drops the deadline row (C12-ILPB-1)
    pr = {"A": [st(2, 1, 1)], "B": [st(4, 1, 2)]}
    out.append(
        {
            "now": 5,
            "pools": one_pool(2),
            "profiles": pr,
            "graphs": [
                {
                    "name": f"G{i}",
                    "tasks": [
                        task("P", "COMPLETED", "A", pr, 20, release=0, prev={"w": 0, "s": 0, "time": 0, "sched_at": 0, "finish": 3, "batch": 1 + i}),
                        task("C", "RELEASED", "B", pr, 10, release=4),
                    ],
                    "edges": [[0, 1]],
                }
                for i in (0, 1)
            ],
            "flags": dict(flags),
            "allowed0": [],
            "uuid_seed": 15,
        }
    )
    # a hopeless task (deadline < now + fastest) next to a feasible one: it joins no BatchTask and
    # is not answered at all (C10-ILPB-2)
    pr = {"A": [st(3, 1, 1), st(4, 2, 1)]}
    out.append(
        {
            "now": 5,
            "pools": one_pool(2),
            "profiles": pr,
            "graphs": [
                {"name": "G0", "tasks": [task("T", "RELEASED", "A", pr, 6, release=4)], "edges": []},
                {"name": "G1", "tasks": [task("T", "RELEASED", "A", pr, 30, release=4)], "edges": []},
            ],
            "flags": dict(flags),
            "allowed0": [],
            "uuid_seed": 16,
        }
    )
    # parent and child of one chain share a profile with a batch-of-2 strategy (whole graph offered)
    pr = {"A": [st(3, 1, 1), st(4, 2, 1)]}
    out.append(
        {
            "now": 0,
            "pools": one_pool(2),
            "profiles": pr,
            "graphs": [
                {"name": "G0", "tasks": [task("P", "RELEASED", "A", pr, 30), task("C", "VIRTUAL", "A", pr, 30, release=None)], "edges": [[0, 1]]},
            ],
            "flags": dict(flags, release_taskgraphs=True),
            "allowed0": [],
            "uuid_seed": 17,
        }
    )
    # non-retracting mode: a batch SCHEDULED by an earlier invocation is re-decided as one BatchTask
    pr = {"A": [st(4, 2, 2)]}
    prev = {"w": 0, "s": 0, "time": 6, "sched_at": 2, "batch": 1}
    out.append(
        {
            "now": 3,
            "pools": one_pool(2),
            "profiles": pr,
            "graphs": [
                {"name": "G0", "tasks": [task("T", "SCHEDULED", "A", pr, 40, release=1, prev=dict(prev))], "edges": []},
                {"name": "G1", "tasks": [task("T", "SCHEDULED", "A", pr, 40, release=1, prev=dict(prev))], "edges": []},
                {"name": "G2", "tasks": [task("T", "RELEASED", "A", pr, 40, release=3)], "edges": []},
            ],
            "flags": dict(flags),
            "allowed0": [],
            "uuid_seed": 18,
        }
    )
    # C10-ILPB-5 / C11-ILPB-2: T0 -> T1 -> T2, T1 alone in a profile that needs two tasks (joins no
    # BatchTask); T0 and T2 get no precedence rows and `Overlap = 0`: both must start at 1 on one CPU
    pr = {"A": [st(1, 1, 1)], "B": [st(3, 2, 1)]}
    out.append(
        {
            "now": 0,
            "pools": one_pool(1),
            "profiles": pr,
            "graphs": [
                {
                    "name": "G0",
                    "tasks": [task("T0", "RELEASED", "A", pr, 2), task("T1", "VIRTUAL", "B", pr, 20, release=None), task("T2", "VIRTUAL", "A", pr, 2, release=None)],
                    "edges": [[0, 1], [1, 2]],
                }
            ],
            "flags": dict(flags, lookahead=30),
            "allowed0": [],
            "uuid_seed": 19,
        }
    )
    # C10-ILPB-6: retracting mode, the re-offered SCHEDULED parent joins no BatchTask and keeps its
    # placement [5, 7) with 1 of 2 CPUs; its child needs both CPUs and must start by 2
    pr = {"A": [st(2, 2, 1)], "B": [st(5, 1, 2)]}
    out.append(
        {
            "now": 0,
            "pools": one_pool(2),
            "profiles": pr,
            "graphs": [
                {
                    "name": "G0",
                    "tasks": [
                        task("T0", "SCHEDULED", "A", pr, 30, release=0, prev={"w": 0, "s": 0, "time": 5, "sched_at": 0, "batch": 1}),
                        task("T1", "VIRTUAL", "B", pr, 7, release=None),
                    ],
                    "edges": [[0, 1]],
                }
            ],
            "flags": dict(flags, retract=True, release_taskgraphs=True, lookahead=30),
            "allowed0": [],
            "uuid_seed": 20,
        }
    )
    return out


# --------------------------------------------------------------------------
# Lean instance
# --------------------------------------------------------------------------


def _strat_json(s):
    return {"batch": s.batch_size, "runtime": _t(s.runtime), "req": [[r.name, q] for r, q in s.resources.resources]}


def extract_inst(w, rec) -> dict:
    """The instance of `Model/IlpBatch.lean`, read from what `_add_variables` and
    `_create_batch_task_variables` were really given."""
    tasks = rec["tasks"]
    workers = rec["workers"]
    widx = {wk.id: i for i, (k, wk) in enumerate(workers.items())}
    pool_of = {wk.id: pool.name for wk, pool in w.workers}
    tindex = {id(t): i for i, t in enumerate(tasks)}
    keys = {}
    jt = []
    for task in tasks:
        prevW, prevKey, prevStrat = 0, 0, {"batch": 0, "runtime": 0, "req": []}
        if task.state.name in ("RUNNING", "SCHEDULED") and task.current_placement is not None:
            cp = task.current_placement
            prevW = widx.get(cp.worker_id, len(widx))
            prevKey = keys.setdefault(id(cp.execution_strategy), len(keys) + 1)
            prevStrat = _strat_json(cp.execution_strategy)
        jt.append(
            {
                "uniq": task.unique_name,
                "name": task.name,
                "ts": task.timestamp,
                "graph": task.task_graph,
                "state": task.state.name,
                "release": _t(task.release_time),
                "deadline": _t(task.deadline),
                "profile": task.profile.name,
                "prevW": prevW,
                "prevKey": prevKey,
                "prevStrat": prevStrat,
            }
        )
    jw = [
        {"name": wk.name, "pool": pool_of[wk.id], "res": [[r.name, q] for r, q in wk.resources.resources]}
        for _, wk in workers.items()
    ]
    nodes, edges = [], []
    for gname in dict.fromkeys([t.task_graph for t in tasks] + [t.task_graph for _, t in w.task_list]):
        g = w.workload.get_task_graph(gname)
        for n in g.get_nodes():
            nodes.append({"uniq": n.unique_name, "name": n.name, "ts": n.timestamp, "graph": n.task_graph, "state": n.state.name})
            for c in g.get_children(n):
                edges.append([n.unique_name, c.unique_name])
    profs = []
    for call in rec["profile_calls"]:
        p = call["profile"]
        profs.append({"name": p.name, "strats": [_strat_json(s) for s in p.execution_strategies], "order": [tindex[id(t)] for t in call["order"]]})
    f = w.spec["flags"]
    return {
        "now": w.now,
        "workers": jw,
        "tasks": jt,
        "nOffered": len(rec["offered"]),
        "nodes": nodes,
        "edges": edges,
        "enforce_deadlines": f["enforce_deadlines"],
        "retract": f["retract"],
        "release_taskgraphs": f["release_taskgraphs"],
        "goal_slack": f["goal"] == "max_slack",
        "allowed0": rec["allowed0"],
        "profiles": profs,
    }


def real_batches(rec) -> list[dict]:
    """The BatchTasks the real call created, in `tasks_to_variables` order."""
    out = []
    for call in rec["profile_calls"]:
        for name, members, strat, _v in call["batches"] or []:
            out.append({"name": name, "members": [t.unique_name for t in members], "strat": _strat_json(strat)})
    return out


def real_decisions(w, rec) -> list[dict]:
    widx = {wk.id: i for i, (k, wk) in enumerate(rec["workers"].items())} if "workers" in rec else {}
    pool_name = {pool.id: pool.name for pool in w.pools}
    bname = {}
    for call in rec.get("profile_calls", []):
        for name, _members, strat, _v in call["batches"] or []:
            bname[id(strat)] = name
    out = []
    for p in rec["placements"]:
        if p.is_placed():
            out.append(
                {
                    "task": p.task.unique_name,
                    "placed": True,
                    "worker": widx.get(p.worker_id, -1),
                    "pool": pool_name.get(p.worker_pool_id, "?"),
                    "batch": bname.get(id(p.execution_strategy), "?"),
                    "time": _t(p.placement_time),
                }
            )
        else:
            out.append({"task": p.task.unique_name, "placed": False})
    return out


# --------------------------------------------------------------------------
# Oracles (real objects only)
# --------------------------------------------------------------------------

PREFIX = "batching: "


def oracle_c10(w, rec) -> list[str]:
    if rec["err"]:
        cls = rec["err"].split(":")[0]
        if cls == "AttributeError" and "'float' object has no attribute 'time'" in rec["err"]:
            return ["schedule() raised AttributeError sorting a profile's tasks by deadline when only some of their graphs may miss deadlines"]
        if cls == "AttributeError" and "'BatchTask' object has no attribute 'task_graph'" in rec["err"]:
            return ["schedule() raised AttributeError building the max_slack objective over BatchTasks"]
        return [f"schedule() raised {cls}"]
    return ilp.oracle_c10(w, rec)


def _ancestors(g, t):
    seen, todo, out = set(), list(g.get_parents(t)), []
    while todo:
        a = todo.pop()
        if id(a) in seen:
            continue
        seen.add(id(a))
        out.append(a)
        todo.extend(g.get_parents(a))
    return out


def oracle_c11(w, rec) -> list[str]:
    """The clauses of `ilp.oracle_c11` plus two that only matter when an offered task can be left
    without any decision (batching): a placed child whose offered parent got no decision, and a
    placed task that starts before a (transitive) ancestor placed in the same call finishes."""
    bad = ilp.oracle_c11(w, rec)
    if rec["err"]:
        return bad
    decided = {p.task.unique_name: p for p in rec["placements"]}
    offered = {t.unique_name for t in rec.get("offered", [])}
    for p in rec["placements"]:
        if not p.is_placed():
            continue
        c = p.task
        g = w.workload.get_task_graph(c.task_graph)
        parents = list(g.get_parents(c))
        for par in parents:
            if par.unique_name in offered and par.unique_name not in decided and par.state.name not in ("SCHEDULED", "RUNNING"):
                bad.append("child placed while a parent offered in the same call got no decision")
        for a in _ancestors(g, c):
            if any(a is q for q in parents):
                continue
            pa = decided.get(a.unique_name)
            if pa is not None and pa.is_placed() and _t(p.placement_time) < _t(pa.placement_time) + _t(pa.execution_strategy.runtime):
                bad.append("task starts before an ancestor placed in the same call finishes")
    return sorted(set(bad))


def oracle_for(prop, w, rec) -> list[str]:
    if prop == "C10":
        return oracle_c10(w, rec)
    if prop == "C11":
        return oracle_c11(w, rec)
    if prop == "C12":
        return ilp.oracle_c12(w, rec)
    return []


def classify(prop, w, rec, what: str) -> str:
    """Signature of an oracle failure.  Failures explained by one of the defect classes of the
    batching branch get that class appended (decided on the real objects only); everything
    else keeps the bare oracle text and is therefore never matched by a known finding."""
    f = w.spec["flags"]
    R = ilp._repo()
    BatchStrategy = R["BatchStrategy"]
    decided = {p.task.unique_name: p for p in (rec["placements"] or [])}
    if prop == "C10" and what == "capacity exceeded at a planned instant":
        # explained iff the plan fits once the work the model does not charge is left out: RUNNING
        # batches (class 1), dependent tasks placed at overlapping times, which get `Overlap = 0` (class 5)
        running = {id(t) for _, t in w.task_list if t.state.name == "RUNNING"}
        if running and _capacity_ok_without(w, rec, running):
            return f"ilp C10: {PREFIX}{what}: the decisions fit without the RUNNING batches, which hold no capacity in the model"
        dep = _overlapping_dependent_tasks(w, rec)
        if dep and _capacity_ok_without(w, rec, running | dep):
            return f"ilp C10: {PREFIX}{what}: dependent tasks that no precedence row separates run at the same time and are exempt from the overlap / capacity rows"
        # class 6: retracting mode, a re-offered SCHEDULED task that joined no BatchTask keeps its old placement
        kept = {
            id(t)
            for t in rec.get("offered", [])
            if t.state.name == "SCHEDULED" and t.unique_name not in decided and _unbatchable(w, rec, t)
        }
        if kept and _capacity_ok_without(w, rec, running | dep | kept):
            return f"ilp C10: {PREFIX}{what}: a re-offered SCHEDULED task that joined no BatchTask keeps its earlier placement, which the model does not see"
    if prop == "C10" and what == "offered task without decision":
        unanswered = [t for t in rec.get("offered", []) if t.state.name != "SCHEDULED" and t.unique_name not in decided]
        if unanswered and all(_unbatchable(w, rec, t) for t in unanswered):
            return f"ilp C10: {PREFIX}{what}: the task joined no BatchTask (no strategy meets the deadline from now, or fewer tasks than the batch size are left behind it in deadline order)"
    if prop == "C11" and what == "child starts before the expected finish of a RUNNING parent":
        return f"ilp C11: {PREFIX}{what}: a RUNNING BatchTask contributes runtime 0 to the precedence rows"
    if prop == "C11" and what in ("child placed while a parent offered in the same call got no decision", "task starts before an ancestor placed in the same call finishes"):
        # explained iff every such pair is separated by an offered task that joined no BatchTask
        offered = [t for t in rec.get("offered", []) if t.state.name not in ("SCHEDULED", "RUNNING") and t.unique_name not in decided]
        ok = bool(offered) and all(_unbatchable(w, rec, t) for t in offered)
        if ok:
            return f"ilp C11: {PREFIX}{what}: a parent that joined no BatchTask has no variables, so the child's BatchTask gets no precedence rows for it"
    if prop == "C11" and what == "child starts before the expected finish of a SCHEDULED parent" and f["retract"]:
        kept = [t for t in rec.get("offered", []) if t.state.name == "SCHEDULED" and t.unique_name not in decided]
        if kept and all(_unbatchable(w, rec, t) for t in kept):
            return f"ilp C11: {PREFIX}{what}: a parent that joined no BatchTask has no variables, so the child's BatchTask gets no precedence rows for it"
    if prop == "C12" and what == "placed task would finish after its deadline":
        ok = True
        allowed = set(rec.get("allowed_after", []))
        for p in rec["placements"] or []:
            if p.is_placed() and _t(p.placement_time) + _t(p.execution_strategy.runtime) > _t(p.task.deadline):
                if p.task.task_graph not in allowed:
                    ok = False
        if ok:
            return f"ilp C12: {PREFIX}{what}: its graph is in _allowed_to_miss_deadlines and the batching branch drops the deadline row also without release_taskgraphs"
    if prop == "C12" and what == "hopeless task placed":
        allowed = set(rec.get("allowed_after", []))
        hopeless = [
            p.task
            for p in rec["placements"] or []
            if p.is_placed() and _t(p.task.deadline) < w.now + min(_t(s.runtime) for s in p.task.available_execution_strategies)
        ]
        if hopeless and all(t.task_graph in allowed for t in hopeless):
            return f"ilp C12: {PREFIX}{what}: its graph is in _allowed_to_miss_deadlines and the batching branch drops the deadline row also without release_taskgraphs"
    return f"ilp {prop}: {PREFIX}{what}"


def _unbatchable(w, rec, t) -> bool:
    """Is `t` unanswered for the known reason?  True iff t is a member of no BatchTask the real call
    formed AND the documented batching rule indeed yields none for it: with the profile's not yet
    placed tasks in deadline order (stable w.r.t. the iteration order the call used), t at position
    i joins a batch iff some head j <= i has a strategy s with now + runtime(s) <= deadline(head),
    at least batch_size(s) tasks from j on, and i - j < batch_size(s)."""
    f = w.spec["flags"]
    allowed = set(rec.get("allowed_after", []))
    for call in rec.get("profile_calls", []):
        if not any(m is t for m in call["order"]):
            continue
        for _name, members, _s, _v in call["batches"] or []:
            if any(m is t for m in members):
                return False
        placed_like = lambda x: x.state.name == "RUNNING" or (not f["retract"] and x.state.name == "SCHEDULED")
        U = [x for x in call["order"] if not placed_like(x)]
        U = sorted(U, key=lambda x: float("inf") if x.task_graph in allowed else _t(x.deadline))
        i = [k for k, x in enumerate(U) if x is t]
        if not i:
            return False
        i = i[0]
        for j in range(i + 1):
            for s in U[j].available_execution_strategies:
                if w.now + _t(s.runtime) <= _t(U[j].deadline) and len(U) - j >= s.batch_size and i - j < s.batch_size:
                    return False
        return True
    return False


def _overlapping_dependent_tasks(w, rec) -> set:
    """ids of the tasks placed by this call that run at the same time as a dependent (ancestor /
    descendant) task also placed by this call - in one batch or in two."""
    pl = [p for p in rec["placements"] or [] if p.is_placed()]
    out = set()
    for i, p in enumerate(pl):
        for q in pl[i + 1 :]:
            a, b = p.task, q.task
            if a.task_graph != b.task_graph or not w.workload.get_task_graph(a.task_graph).are_dependent(a, b):
                continue
            s1, e1 = _t(p.placement_time), _t(p.placement_time) + _t(p.execution_strategy.runtime)
            s2, e2 = _t(q.placement_time), _t(q.placement_time) + _t(q.execution_strategy.runtime)
            if s1 < e2 and s2 < e1:
                out |= {id(a), id(b)}
    return out


def _capacity_ok_without(w, rec, excluded: set) -> bool:
    iv = [x for x in ilp._intervals(w, rec) if id(x[0]) not in excluded]
    BatchStrategy = ilp._repo()["BatchStrategy"]
    cap = {}
    for wk, pool in w.workers:
        cap[wk.id] = _req_totals([(r.name, q) for r, q in wk.resources.resources])
    for _, wid, s0, _e0, _ in iv:
        for wk_id, tot in cap.items():
            use, counted = {}, set()
            for t, wid2, s, e, strat in iv:
                if wid2 == wk_id and s <= s0 < e:
                    if isinstance(strat, BatchStrategy):
                        if id(strat) in counted:
                            continue
                        counted.add(id(strat))
                    for r, q in strat.resources.resources:
                        use[r.name] = use.get(r.name, 0) + q
            if any(q > tot.get(rn, 0) for rn, q in use.items()):
                return False
    return True


# --------------------------------------------------------------------------
# One case
# --------------------------------------------------------------------------


def run_case(spec: dict):
    w = ilp.build_world(spec)
    rec = ilp.real_schedule(w)
    case = None
    rec["skip"] = bool(rec["err"] and rec["err"].startswith("GurobiError: Model too large"))
    if rec["skip"]:  # size-limited Gurobi licence of the sandbox: not an outcome of the code under test
        return w, rec, None
    R = ilp._repo()
    GRB = R["GRB"]
    if rec.get("tasks") is not None:
        rec["inst"] = extract_inst(w, rec)
        if rec["err"] is not None:
            rec["solved"] = False
            case = {"suite": SUITE, "inst": rec["inst"], "sigma": None, "model": False}
        elif rec["model"] is not None:
            m = rec["model"]
            solved = m.Status == GRB.OPTIMAL or (m.Status == GRB.INTERRUPTED and getattr(m, "_solution_found", False))
            sigma, rec["sigma_bad"] = (None, [])
            if solved:
                sigma, rec["sigma_bad"] = ilp.solver_sigma(m)
            rec["solved"] = solved
            case = {"suite": SUITE, "inst": rec["inst"], "sigma": sigma}
    return w, rec, case


def canonical_case(spec: dict) -> dict:
    return {k: spec[k] for k in ("now", "pools", "profiles", "graphs", "flags", "allowed0")}


def compare_case(w, rec, reply) -> list[str]:
    dis = []
    if "protocol_error" in reply:
        return [f"driver protocol error: {reply['protocol_error']}"]
    if rec["err"] is not None or "err" in reply:
        real = None if rec["err"] is None else rec["err"].split(":")[0]
        if reply.get("err") != real:
            return [f"exception outcome differs: real={real} model={reply.get('err')}"]
        return []
    if not reply.get("wf", False):
        dis.append("extracted instance violates the theorems' well-formedness hypotheses (BInst.wf = false)")
    rb = real_batches(rec)
    if reply.get("batches") != rb:
        dis.append(f"batch formation differs: real={rb} model={reply.get('batches')}")
    dis += ilp.diff_models(ilp.canon_gurobi(rec["model"]), ilp.canon_lean(reply))
    real = real_decisions(w, rec)
    if rec["solved"]:
        if rec["sigma_bad"]:
            dis.append(f"solver returned non-integral values {rec['sigma_bad'][:3]}")
        if not reply.get("sat", False):
            dis.append(f"solver point does not satisfy genB inst: {reply.get('violated')[:4]}")
        if reply.get("decode") != real:
            dis.append(f"decode differs: real={real} model={reply.get('decode')}")
        ov = round(rec["model"].ObjVal)
        if reply.get("objval") != ov:
            dis.append(f"objective value real={ov} model={reply.get('objval')}")
    else:
        if reply.get("decode_fail") != real:
            dis.append(f"failure decisions differ: real={real} model={reply.get('decode_fail')}")
    return dis


def counts_for(prop: str, tier: str) -> int:
    quick = {"C10": 40, "C11": 40, "C12": 40}
    thorough = {"C10": 400, "C11": 400, "C12": 300}
    return (quick if tier == "quick" else thorough)[prop]


KIND = {"C10": "mix", "C11": "dag", "C12": "deadline"}


def gen_specs(prop: str, rng, tier: str, widened=False) -> list[dict]:
    n = counts_for(prop, tier) * (2 if widened else 1)
    r = rng.sub(f"ilpbatch/{prop}/{'w' if widened else 'n'}")
    specs = list(corpus())
    kinds = [KIND[prop]] if not widened else ["mix", "dag", "deadline"]
    n_corpus = len(specs)
    while len(specs) < n:
        specs.append(gen_world(r, r.choice(kinds)))
    # flavour (harness/planners/_worlds.py): the real TaskGraph is built in a random, mostly non-topological
    # declaration order in a share of the worlds (own random stream: the base worlds stay what they were)
    fr = rng.sub(f"ilpbatch/{prop}/{'w' if widened else 'n'}/flavours")
    for spec in specs[n_corpus:]:
        if fr.random() < 0.35:
            _worlds.shuffle_decl(spec, fr)
    return specs


def run(prop: str, chk, rng, tier: str, lean: bool | None = None) -> list[str]:
    lean = USE_LEAN if lean is None else lean
    prop = prop.upper()
    specs = gen_specs(prop, rng, tier)
    disagreements = []
    worlds, cases, idx = [], [], []
    t0 = _time.time()
    for spec in specs:
        w, rec, case = run_case(spec)
        worlds.append((spec, w, rec))
        if case is not None:
            idx.append(len(worlds) - 1)
            cases.append(case)
    replies = common.run_driver(cases) if (cases and lean) else []
    by_world = {wi: r for wi, r in zip(idx, replies)}
    for wi, (spec, w, rec) in enumerate(worlds):
        reply = by_world.get(wi)
        f = spec["flags"]
        if rec["skip"]:
            chk.count("ilpbatch:skipped (model exceeds the size-limited Gurobi licence)")
            continue
        n_off = len(rec.get("offered", []))
        placed = 0 if rec["placements"] is None else sum(1 for p in rec["placements"] if p.is_placed())
        nb = sum(len(c["batches"] or []) for c in rec.get("profile_calls", []))
        big = sum(1 for c in rec.get("profile_calls", []) for b in (c["batches"] or []) if len(b[1]) > 1)
        chk.case({"planner": NAME, "spec": canonical_case(spec)}, nontrivial=(rec["err"] is None and n_off > 0 and (reply is not None or not lean)))
        chk.count(f"ilpbatch:offered={min(n_off, 6)}")
        chk.count(f"ilpbatch:placed={min(placed, 6)}")
        chk.count(f"ilpbatch:batchtasks={min(nb, 12)}")
        chk.count(f"ilpbatch:batchtasks-with-several-members={min(big, 6)}")
        chk.count(f"ilpbatch:retract={f['retract']},release_tg={f['release_taskgraphs']}")
        if rec["placements"]:
            sizes = {}
            for p in rec["placements"]:
                if p.is_placed():
                    sizes[id(p.execution_strategy)] = sizes.get(id(p.execution_strategy), 0) + 1
            if any(v > 1 for v in sizes.values()):
                chk.count("ilpbatch:returned-a-batch-of-several-tasks")
        if any(t.state.name == "RUNNING" for _, t in w.task_list):
            chk.count("ilpbatch:with-RUNNING-batch")
        if rec["err"]:
            chk.count("ilpbatch:raised")
        if reply is not None:
            chk.count("ilpbatch:raised-predicted" if rec["err"] else "ilpbatch:solved" if rec["solved"] else "ilpbatch:no-solution")
            chk.traces_validated += 1
            for x in compare_case(w, rec, reply):
                disagreements.append(f"[ilpbatch case {wi}] {x} :: spec={json.dumps(canonical_case(spec))[:600]}")
        elif rec["err"] is None and rec.get("tasks") is None:
            if len(rec["placements"]) != 0 or rec["n_models"] != 0:
                disagreements.append(f"[ilpbatch case {wi}] nothing offered but placements/model produced")
        for b in oracle_for(prop, w, rec):
            sig = classify(prop, w, rec, b)
            chk.violation(sig, {"planner": NAME, "prop": prop, "spec": spec, "what": b})
    chk.extra.setdefault("planner_wall_s", {})[f"ilpbatch/{prop}"] = round(_time.time() - t0, 1)
    return disagreements


def search(prop: str, chk, rng, tier: str) -> None:
    prop = prop.upper()
    for spec in gen_specs(prop, rng, tier, widened=True):
        try:
            w, rec, case = run_case(spec)
        except Exception:
            continue
        if rec["skip"]:
            continue
        for b in oracle_for(prop, w, rec):
            chk.violation(classify(prop, w, rec, b), {"planner": NAME, "prop": prop, "spec": spec, "what": b}, found_input=True)


def replay(rp: dict) -> int:
    spec, prop = rp["spec"], rp["prop"]
    w, rec, case = run_case(spec)
    if rec["skip"]:
        print("model exceeds the size-limited Gurobi licence; cannot replay here")
        return 2
    bad = oracle_for(prop, w, rec)
    for b in bad:
        print(f"reproduced: {classify(prop, w, rec, b)}")
    return 1 if bad else 0
