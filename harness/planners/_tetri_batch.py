"""TetriSched-CPLEX in *batching* mode (`batching=True`): generator, extraction, oracles.

Helper of the `tetri` plugin (not a plugin of its own: the leading underscore keeps it out of the
plugin discovery; `tetri.run/search/replay` call into it for C10 and C12; C11 does not apply, the
CPLEX formulation knows no precedence and is not one of the property's planners).

What batching mode does (schedulers/tetrisched_cplex_scheduler.py):

* after the per-task admission control the surviving offered tasks and the previously placed ones are
  grouped by `WorkProfile` (a Python *set* per profile: its iteration order is an input);
* `_create_batch_task_variables` builds `BatchTask`s per profile: one per `current_placement.execution_strategy`
  for RUNNING (and, without retraction, SCHEDULED) tasks, then — tasks sorted by deadline — for every
  head task and every strategy of the head that meets the head's deadline from `now` and whose
  `batch_size` does not exceed the number of remaining tasks, the batch (head, next batch_size-1 tasks);
* a `BatchTask` has release = max, **deadline = min** of its members, one `BatchStrategy`, and gets the
  same space-time variables as a task; `…_unique_batch_placement` rows allow one batch per task;
* `schedule()` merges the per-batch placements back to member tasks (first placed batch wins).

The oracles below judge only the returned `Placements` against the real objects; what the code built
internally (`rec["tvars"]`, the captured docplex model) is used to *classify* a failure (signature) and for
the adversarial C12 query, never to excuse one.
"""
from __future__ import annotations

import json
import time as _time
from fractions import Fraction

from harness import common

SUITE = "mip_tetri"  # the driver dispatches on inst["batching"]


def T():
    from harness.planners import tetri

    return tetri


# --------------------------------------------------------------------------
# Generator
# --------------------------------------------------------------------------


def gen_world(rng, kind: str) -> dict:
    """A batching world. `kind`: 'mix' (C10: states / occupancy / horizons), 'deadline' (C12:
    contended workers, members with different deadlines, enforcement on)."""
    now = rng.choice([0, 0, 2, 5])
    disc = rng.choice([1, 1, 1, 2, 3])
    n_workers = rng.choice([1, 1, 2])
    n_pools = 1 if n_workers == 1 or rng.random() < 0.6 else 2
    pools = [{"name": f"P{i}", "workers": []} for i in range(n_pools)]
    contended = kind == "deadline" or rng.random() < 0.5
    for i in range(n_workers):
        res = [["CPU", rng.randint(1, 2) if contended else rng.randint(2, 4)]]
        if rng.random() < 0.3:
            res.append(["GPU", rng.randint(1, 2)])
        if rng.random() < 0.1:
            res.append(["CPU", 1])
        pools[i % n_pools]["workers"].append({"name": f"W{i}", "res": res})
    pools = [p for p in pools if p["workers"]]
    order = [wk for p in pools for wk in p["workers"]]
    has_gpu = any(any(r == "GPU" for r, _ in wk["res"]) for wk in order)
    totals = []
    for wk in order:
        tot = {}
        for r, q in wk["res"]:
            tot[r] = tot.get(r, 0) + q
        totals.append(tot)

    flags = {
        "enforce_deadlines": True if kind == "deadline" else rng.random() < 0.65,
        "retract": rng.random() < 0.3,
        "release_taskgraphs": False,
        "lookahead": rng.choice([0, 0, 6, 30]),
        "disc": disc,
        "plan_ahead": -1,
    }
    max_slots = 13
    span = (max_slots - 1) * disc
    explicit_pa = rng.random() < 0.25
    if explicit_pa:
        flags["plan_ahead"] = rng.randint(max(1, span // 3), span)
        dl_hi = now + span
    else:
        dl_hi = span  # the code uses the greatest *absolute* deadline as a duration

    # profiles: strategies with batch sizes; sometimes no batch_size-1 strategy (a task can then end up
    # in no batch at all)
    n_prof = rng.choice([1, 1, 2, 2, 3])
    profiles = []
    for pi in range(n_prof):
        ns = rng.choice([1, 2, 2, 3])
        sizes = []
        for _ in range(ns):
            sizes.append(rng.choice([1, 2, 2, 3]))
        if rng.random() < 0.75 and 1 not in sizes:
            sizes[0] = 1
        strats = []
        for bs in sizes:
            req = [["CPU", rng.randint(1, 2)]]
            if has_gpu and rng.random() < 0.25:
                req.append(["GPU", 1])
            if rng.random() < 0.04:
                req = [["CPU", 0]]
            strats.append({"batch": bs, "runtime": rng.randint(1, 3) + (bs - 1) * rng.randint(0, 2), "req": req})
        profiles.append({"name": f"PR{pi}", "strats": strats})

    n_tasks = rng.randint(2, 6)
    booked = [[] for _ in order]

    def reqd(req):
        d = {}
        for rr, q in req:
            d[rr] = d.get(rr, 0) + q
        return d

    def fits(wi, req, s0, e0):
        rq = reqd(req)
        if any(totals[wi].get(rr, 0) < q for rr, q in rq.items()):
            return False
        for tau in [s0] + [b[0] for b in booked[wi] if s0 <= b[0] < e0]:
            use = dict(rq)
            for (bs_, be_, breq) in booked[wi]:
                if bs_ <= tau < be_:
                    for rr, q in breq.items():
                        use[rr] = use.get(rr, 0) + q
            if any(q > totals[wi].get(rr, 0) for rr, q in use.items()):
                return False
        return True

    tasks = []
    for ti in range(n_tasks):
        pi = rng.randrange(n_prof) if rng.random() < 0.4 else 0
        tasks.append({"name": f"T{ti}", "ts": 0, "profile": pi, "state": "RELEASED"})
    # earlier batches: k tasks of one profile, one strategy, one worker, one start, all RUNNING or all SCHEDULED
    next_batch = 0
    free = list(range(n_tasks))
    rng.shuffle(free)
    for _ in range(rng.choice([0, 0, 1, 1, 2])):
        if not free:
            break
        head = free[0]
        pi = tasks[head]["profile"]
        si = rng.randrange(len(profiles[pi]["strats"]))
        st_ = profiles[pi]["strats"][si]
        same = [t for t in free if tasks[t]["profile"] == pi]
        k = rng.randint(1, min(st_["batch"], len(same)))
        members = same[:k]
        state = rng.choice(["RUNNING", "SCHEDULED"])
        rt = st_["runtime"]
        wi = rng.randrange(len(order))
        if state == "RUNNING":
            started = max(0, now - rng.randint(0, max(0, rt - 1)))
            remaining = max(1, rt - (now - started))
            ok = fits(wi, st_["req"], now, now + rt)  # the formulation books the full runtime from now
            at = started
        else:
            at = now + rng.randint(1, 5)
            remaining = rt
            ok = fits(wi, st_["req"], at, at + rt)
        if not ok:
            continue
        booked[wi].append((now if state == "RUNNING" else at, (now if state == "RUNNING" else at) + rt, reqd(st_["req"])))
        for t in members:
            free.remove(t)
            tasks[t]["state"] = state
            tasks[t]["prev"] = {"w": wi, "s": si, "batch": next_batch, "time": at, "sched_at": max(0, min(at, now) - 1) if state == "SCHEDULED" else at, "remaining": remaining}
        next_batch += 1
    for ti, t in enumerate(tasks):
        strats = profiles[t["profile"]]["strats"]
        fastest = min(s["runtime"] for s in strats)
        release = max(0, now - rng.randint(0, 3))
        if t["state"] == "RUNNING":
            release = min(release, t["prev"]["time"])
            t["prev"]["sched_at"] = release
        if t["state"] == "SCHEDULED":
            release = min(release, t["prev"]["sched_at"])
        t["release"] = release
        if t["state"] == "RELEASED" and flags["lookahead"] > 0 and rng.random() < 0.4:
            t["release"] = now + rng.randint(1, 6)  # released in the future (inside / outside the lookahead)
        r = rng.random()
        if kind == "deadline":
            d = now + fastest + rng.choice([-2, -1, 0, 0, 1, 2, 3, 5, 8])
        elif r < 0.1:
            d = now + fastest - rng.randint(0, 2)
        elif r < 0.35:
            d = now + fastest + rng.randint(0, 2)
        else:
            d = now + rng.randint(fastest + 1, fastest + 10)
        d = max(0, min(d, dl_hi))
        if t["state"] in ("RUNNING", "SCHEDULED"):
            # reachable states only: the window loop of the earlier batching call kept the strategy only if
            # `sched_at + runtime <= deadline` (with or without enforcement); an enforcing planner moreover
            # placed it at a cell that meets the deadline
            d = max(d, t["prev"]["sched_at"] + strats[t["prev"]["s"]]["runtime"])
            if flags["enforce_deadlines"]:
                d = max(d, t["prev"]["time"] + strats[t["prev"]["s"]]["runtime"])
        t["deadline"] = d
    graphs = [{"name": f"G{ti}", "tasks": [t], "edges": []} for ti, t in enumerate(tasks)]
    return {
        "backend": "cplex",
        "batching": True,
        "now": now,
        "pools": pools,
        "profiles": profiles,
        "graphs": graphs,
        "flags": flags,
        "uuid_seed": rng.randint(0, 10**9),
    }


def corpus() -> list[dict]:
    """Hand-written batching cases (one per known quirk / finding); always run first."""

    def task(name, profile, state, deadline, release=0, prev=None):
        t = {"name": name, "ts": 0, "profile": profile, "state": state, "deadline": deadline, "release": release}
        if prev:
            t["prev"] = prev
        return t

    def st(rt, bs=1, cpu=1):
        return {"batch": bs, "runtime": rt, "req": [["CPU", cpu]]}

    def world(tasks, profiles, cpu=2, now=0, seed=1, **fl):
        flags = {"enforce_deadlines": True, "retract": False, "release_taskgraphs": False, "lookahead": 0, "disc": 1, "plan_ahead": -1}
        flags.update(fl)
        return {
            "backend": "cplex",
            "batching": True,
            "now": now,
            "pools": [{"name": "P0", "workers": [{"name": "W0", "res": [["CPU", cpu]]}]}],
            "profiles": profiles,
            "graphs": [{"name": f"G{i}", "tasks": [t], "edges": []} for i, t in enumerate(tasks)],
            "flags": flags,
            "uuid_seed": seed,
        }

    out = []
    # two members with different deadlines, a batch-2 and a batch-1 strategy
    out.append(world([task("A", 0, "RELEASED", 10), task("B", 0, "RELEASED", 20)], [{"name": "PR0", "strats": [st(3), st(5, 2)]}]))
    # seeded change C12-5 (BatchTask.deadline = max): Tight (6) and Loose (20) share a batch-2 strategy of 5;
    # an urgent task of another profile holds the only CPU on [0, 3)
    out.append(
        world(
            [task("Urgent", 1, "RELEASED", 3), task("Tight", 0, "RELEASED", 6), task("Loose", 0, "RELEASED", 20)],
            [{"name": "PR0", "strats": [st(5, 2)]}, {"name": "PR1", "strats": [st(3)]}],
            cpu=1,
            seed=2,
        )
    )
    # C10-TETRI-B1: a profile whose only strategy needs two tasks, one task offered: no BatchTask, min([]) raises
    out.append(world([task("A", 0, "RELEASED", 10)], [{"name": "PR0", "strats": [st(5, 2)]}], seed=3))
    # C10-TETRI-B2: without enforcement a task already past its deadline is in no batch: no decision at all
    out.append(world([task("Late", 0, "RELEASED", 2), task("B", 0, "RELEASED", 30)], [{"name": "PR0", "strats": [st(3)]}], seed=4, enforce_deadlines=False))
    # C10-TETRI-B3: the capacity rows end at now + greatest *BatchTask* deadline (5), the variables at
    # now + greatest task deadline (9); a RUNNING task holds the CPU on [0, 8): both batches start at 6
    # (the instance of the Lean theorem C10_TetriBatch.horizon_counterexample)
    out.append(
        world(
            [
                task("A", 0, "RELEASED", 4),
                task("B", 0, "RELEASED", 4),
                task("C", 0, "RELEASED", 5),
                task("D", 0, "RELEASED", 9),
                task("R", 1, "RUNNING", 5, prev={"w": 0, "s": 0, "batch": 0, "time": 0, "sched_at": 0, "remaining": 8}),
            ],
            [{"name": "PR0", "strats": [st(3, 2)]}, {"name": "PR1", "strats": [st(8)]}],
            cpu=1,
            seed=5,
            enforce_deadlines=False,
        )
    )
    # C10-TETRI-B4: retracting mode; S (scheduled for t=5 by the call at t=0, deadline 2) is re-offered but can no
    # longer start at now=1 in time, so it is in no batch and keeps its placement; R holds the CPU until 5, N is
    # placed at 5 on top of S
    out.append(
        world(
            [
                task("S", 0, "SCHEDULED", 2, prev={"w": 0, "s": 0, "batch": 0, "time": 5, "sched_at": 0, "remaining": 2}),
                task("N", 0, "RELEASED", 20, release=1),
                task("R", 1, "RUNNING", 9, release=1, prev={"w": 0, "s": 0, "batch": 1, "time": 1, "sched_at": 1, "remaining": 4}),
            ],
            [{"name": "PR0", "strats": [st(2)]}, {"name": "PR1", "strats": [st(4)]}],
            cpu=1,
            now=1,
            seed=8,
            enforce_deadlines=False,
            retract=True,
        )
    )
    # a SCHEDULED batch of two that must be re-placed (non-retracting) next to a new task
    out.append(
        world(
            [
                task("S1", 0, "SCHEDULED", 12, prev={"w": 0, "s": 1, "batch": 0, "time": 3, "sched_at": 0, "remaining": 4}),
                task("S2", 0, "SCHEDULED", 14, prev={"w": 0, "s": 1, "batch": 0, "time": 3, "sched_at": 0, "remaining": 4}),
                task("N", 0, "RELEASED", 9, release=1),
            ],
            [{"name": "PR0", "strats": [st(2), st(4, 2)]}],
            now=1,
            seed=6,
        )
    )
    # a RUNNING batch of two and three new tasks; discretisation 2
    out.append(
        world(
            [
                task("R1", 0, "RUNNING", 9, prev={"w": 0, "s": 1, "batch": 0, "time": 1, "sched_at": 0, "remaining": 3}),
                task("R2", 0, "RUNNING", 11, prev={"w": 0, "s": 1, "batch": 0, "time": 1, "sched_at": 0, "remaining": 3}),
                task("N1", 0, "RELEASED", 9, release=2),
                task("N2", 0, "RELEASED", 12, release=2),
                task("N3", 0, "RELEASED", 12, release=1),
            ],
            [{"name": "PR0", "strats": [st(2), st(4, 2), st(5, 3)]}],
            now=2,
            seed=7,
            disc=2,
        )
    )
    return out


def gen_specs(prop: str, rng, tier: str, widened=False) -> list[dict]:
    n = {"quick": {"C10": 45, "C12": 45}, "thorough": {"C10": 450, "C12": 450}}[tier][prop]
    if widened:
        n *= 2
    r = rng.sub(f"tetri-batch/{prop}/{'w' if widened else 'n'}")
    kind = {"C10": "mix", "C12": "deadline"}[prop]
    specs = corpus()
    n_corpus = len(specs)
    while len(specs) < n:
        specs.append(gen_world(r, r.choice(["mix", "deadline"]) if widened else kind))
    # flavour (harness/planners/_worlds.py): the real TaskGraph is built in a random, mostly non-topological
    # declaration order in a share of the worlds (own random stream: the base worlds stay what they were)
    from harness.planners import _worlds

    fr = rng.sub(f"tetri-batch/{prop}/{'w' if widened else 'n'}/flavours")
    for spec in specs[n_corpus:]:
        if fr.random() < 0.35:
            _worlds.shuffle_decl(spec, fr)
        if fr.random() < 0.3:
            _worlds.gen_warmup(spec, fr)  # the same scheduler object was invoked before, on an unrelated world
    return specs


# --------------------------------------------------------------------------
# Model-independent oracles
# --------------------------------------------------------------------------


def _same_strategy(a, b) -> bool:
    """Structural equality (a `BatchStrategy` is a copy of the task's strategy with an id of its own)."""
    t = T()
    return a.batch_size == b.batch_size and t._t(a.runtime) == t._t(b.runtime) and t._req(a) == t._req(b) and sorted(
        (r.name, r.id == "any", q) for r, q in a.resources.resources
    ) == sorted((r.name, r.id == "any", q) for r, q in b.resources.resources)


def _is_batch(strategy) -> bool:
    return type(strategy).__name__ == "BatchStrategy"


def occupancy(w, rec, booking="true"):
    """Planned occupancy after this decision with **a batch counted once**: the simulator's `Worker` charges the
    tasks that share one `BatchStrategy` object on one worker once.  Items
    `(key, worker id, start, end, requirement dict, member names)`; tasks placed by the decision, RUNNING tasks
    (until now + remaining), SCHEDULED tasks the decision did not re-decide."""
    t = T()
    decided = t._decided(rec) if rec["placements"] is not None else {}
    groups = {}

    def add(task, wid, s0, e0, strat):
        key = (wid, id(strat), s0) if _is_batch(strat) else (wid, "task", task.unique_name)
        g = groups.setdefault(key, [wid, s0, e0, t._req(strat), [], strat])
        g[2] = max(g[2], e0)
        g[4].append(task.unique_name)

    for _, task in w.task_list:
        st = task.state.name
        if task.unique_name in decided:
            p = decided[task.unique_name]
            if p.is_placed() and p.execution_strategy is not None and p.placement_time is not None:
                add(task, p.worker_id, t._t(p.placement_time), t._t(p.placement_time) + t._t(p.execution_strategy.runtime), p.execution_strategy)
        elif st == "RUNNING":
            cp = task.current_placement
            dur = t._t(task.remaining_time) if booking == "true" else t._t(cp.execution_strategy.runtime)
            add(task, cp.worker_id, w.now, w.now + dur, cp.execution_strategy)
        elif st == "SCHEDULED":
            cp = task.current_placement
            add(task, cp.worker_id, t._t(cp.placement_time), t._t(cp.placement_time) + t._t(cp.execution_strategy.runtime), cp.execution_strategy)
    return [(k, g[0], g[1], g[2], g[3], g[4], g[5]) for k, g in groups.items()]


def _built_batches(rec):
    """What the code built (classification only): [(name, [member names], deadline µs)]."""
    t = T()
    out = []
    for name, tv in (rec.get("tvars") or {}).items():
        bt = tv.task
        if hasattr(bt, "tasks"):
            out.append((name, [m.unique_name for m in bt.tasks], t._t(bt.deadline)))
    return out


def oracle_c10(w, rec) -> list[str]:
    """C10 clauses for the batching mode, on the returned Placements only."""
    t = T()
    f = w.spec["flags"]
    if rec["err"]:
        cls, _, msg = rec["err"].partition(": ")
        if cls == "ValueError" and "min()" in msg and "empty" in msg:
            return ["schedule() raised ValueError (min() of an empty sequence: a profile none of whose tasks forms a BatchTask)"]
        return [f"schedule() raised {cls}"]
    bad = []
    pls = list(rec["placements"])
    names = [p.task.unique_name for p in pls]
    if len(set(names)) != len(names):
        bad.append("two decisions for one task")
    offered = {x.unique_name for x in rec.get("offered", [])}
    for p in pls:
        task = p.task
        st = task.state.name
        if st in ("RUNNING", "COMPLETED"):
            bad.append(f"decision for a {st} task")
        if task.unique_name not in offered and st != "SCHEDULED":
            bad.append("decision for a task neither offered nor previously scheduled")
    built = _built_batches(rec)
    in_batch = {m for _, ms, _ in built for m in ms}
    for u in sorted(offered):
        if w.tasks[u].state.name != "SCHEDULED" and u not in names:
            if rec.get("tvars") is not None and u not in in_batch:
                bad.append("offered task without decision (the task is a member of no BatchTask)")
            else:
                bad.append("offered task without decision")
    pool_ids = {pool.id: pool for pool in w.pools}
    by_strategy = {}
    for p in pls:
        if not p.is_placed():
            continue
        task = p.task
        pool = pool_ids.get(p.worker_pool_id)
        if pool is None:
            bad.append("unknown pool")
            continue
        if p.worker_id is not None and p.worker_id not in {wk.id for wk in pool.workers}:
            bad.append("worker not in the named pool")
        s = p.execution_strategy
        if s is not None:
            if not any(_same_strategy(x, s) for x in task.available_execution_strategies):
                bad.append("strategy does not belong to the task")
            if _is_batch(s):
                by_strategy.setdefault(id(s), []).append(p)
        if t._t(p.placement_time) < w.now:
            bad.append("placement time before now")
        if not task.release_time.is_invalid() and task.state.name != "VIRTUAL" and t._t(p.placement_time) < t._t(task.release_time):
            bad.append("placement time before the known release")
    for ps in by_strategy.values():
        s = ps[0].execution_strategy
        if len(ps) > s.batch_size:
            bad.append("more members placed with one BatchStrategy than its batch_size")
        if len({(p.worker_id, t._t(p.placement_time)) for p in ps}) != 1:
            bad.append("members of one BatchStrategy placed on different workers or at different times")
        if len({x.task.profile.id if hasattr(x.task.profile, "id") else id(x.task.profile) for x in ps}) != 1:
            bad.append("members of one BatchStrategy belong to different profiles")
    # joint feasibility at every planned instant, a batch counted once
    occ = occupancy(w, rec)
    cap = t._caps(w)
    pa_rows = None
    if built and f["plan_ahead"] == -1:
        pa_rows = w.now + max(d for _, _, d in built)
    # re-offered SCHEDULED tasks (retracting mode) that got no decision and are in no BatchTask: they keep
    # their earlier placement although the model never saw them
    ignored = {
        u
        for u in offered
        if w.tasks[u].state.name == "SCHEDULED" and u not in names and rec.get("tvars") is not None and u not in in_batch
    }
    for _, _wid, s0, _e0, _rq, _ms, _s in occ:
        for wk_id, tot in cap.items():
            use = {}
            involved = set()
            for _k, wid2, s, e, rq, ms_, _s2 in occ:
                if wid2 == wk_id and s <= s0 < e:
                    involved.update(ms_)
                    for rn, q in rq.items():
                        use[rn] = use.get(rn, 0) + q
            if any(q > tot.get(rn, 0) for rn, q in use.items()):
                if involved & ignored:
                    bad.append("capacity exceeded at a planned instant (a re-offered SCHEDULED task that is a member of no BatchTask keeps its earlier placement, which the new plan ignores)")
                elif pa_rows is not None and s0 > pa_rows:
                    bad.append("capacity exceeded at a planned instant (after now + the greatest BatchTask deadline, where the capacity rows end; the variables reach now + the greatest task deadline)")
                else:
                    bad.append("capacity exceeded at a planned instant")
    if not rec["pure"]:
        bad.append("live cluster or task state changed by schedule()")
    return sorted(set(bad))


def oracle_c12(w, rec) -> list[str]:
    """Deadlines of every MEMBER task; hopeless tasks cancelled (per task, not per batch)."""
    t = T()
    R = t._repo()
    f = w.spec["flags"]
    if rec["err"] or not f["enforce_deadlines"]:
        return []
    bad = []
    CANCEL = R["Placement"].PlacementType.CANCEL_TASK
    for p in rec["placements"]:
        task = p.task
        fastest = min(t._t(s.runtime) for s in task.available_execution_strategies)
        hopeless = t._t(task.deadline) < w.now + fastest
        cancel = p.placement_type == CANCEL
        if not cancel and p.is_placed():
            if t._t(p.placement_time) + t._t(p.execution_strategy.runtime) > t._t(task.deadline):
                bad.append("placed member task would finish after its own deadline")
            if hopeless:
                bad.append("hopeless task placed")
        if hopeless and not cancel:
            bad.append("hopeless task not answered with a cancellation")
        if cancel and not hopeless:
            bad.append("task cancelled although its fastest strategy meets the deadline from now")
    return sorted(set(bad))


def adversarial_deadline(w, rec) -> list[str]:
    """C12 quantifies over every feasible point of the model: ask CPLEX for a feasible point of the
    CAPTURED REAL model in which a cell is chosen whose completion lies after the deadline of a member of
    its batch.  Candidate cells are read from the variable names (`<batch>_placed_at_Worker_<w>_on_Time_<t>_…`)
    and the BatchTasks the code built."""
    t = T()
    f = w.spec["flags"]
    m = rec.get("model")
    if m is None or rec["err"] or not f["enforce_deadlines"] or not rec.get("tvars"):
        return []
    found = []
    for name, tv in rec["tvars"].items():
        bt = tv.task
        members = list(bt.tasks) if hasattr(bt, "tasks") else [bt]
        if tv.previously_placed:
            continue
        dl = min(t._t(x.deadline) for x in members)
        late = []
        for (wid, start, strategy), var in tv.space_time_matrix.items():
            if isinstance(var, int):
                continue
            if start + t._t(strategy.runtime) > dl:
                late.append((start, var))
        if not late:
            continue
        # one query per batch: can any late cell be 1 in a feasible point?
        ct = m.add_constraint(m.sum(v for _, v in late) >= 1, ctname="verif_adversarial_late_cell")
        try:
            obj = m.objective_expr
            sol = m.solve()
            if sol:
                st_, var = next((s_, v) for s_, v in late if round(sol.get_value(v)) == 1)
                who = min(members, key=lambda x: t._t(x.deadline))
                found.append(f"feasible point: batch {name} starts at {st_} and completes after the deadline {dl} of its member {who.unique_name}")
            del obj
        finally:
            m.remove_constraint(ct)
    return found


# --------------------------------------------------------------------------
# Running
# --------------------------------------------------------------------------


def run_oracles(prop, chk, spec, w, rec, found_input=True):
    t = T()
    if prop == "C10":
        bads = oracle_c10(w, rec)
    elif prop == "C12":
        bads = oracle_c12(w, rec)
    else:
        bads = []
    for b in bads:
        chk.violation(f"tetri {prop}: batching: {b}", {"planner": t.NAME, "prop": prop, "spec": spec, "what": b}, found_input=found_input)
    if prop == "C12":
        for b in adversarial_deadline(w, rec):
            chk.count("tetri-batch:adversarial-hit")
            chk.violation(
                f"tetri C12: batching: {b.split(':')[0]} of the captured model places a member past its deadline",
                {"planner": t.NAME, "prop": prop, "spec": spec, "what": b, "adversarial": True},
                found_input=found_input,
            )
        chk.count("tetri-batch:adversarial-queries")


def replay(rp: dict) -> int:
    t = T()
    spec, prop = rp["spec"], rp["prop"]
    w, rec, _case = t._quiet_schedule(spec)
    try:
        bad = oracle_c10(w, rec) if prop == "C10" else oracle_c12(w, rec) if prop == "C12" else []
        if prop == "C12" and rp.get("adversarial"):
            bad += adversarial_deadline(w, rec)
        for b in bad:
            print(f"reproduced: tetri {prop}: batching: {b}")
        return 1 if bad else 0
    finally:
        t.release_model(rec)


# --------------------------------------------------------------------------
# Lean instance, canonical forms, correspondence
# --------------------------------------------------------------------------


def _bstrat(s) -> dict:
    t = T()
    return {"runtime": t._t(s.runtime), "batch": s.batch_size, "req": [[r.name, q] for r, q in s.resources.resources]}


def extract_inst(w, rec):
    """The Lean instance of a batching invocation, read from what the model-building code was given."""
    t = T()
    offered = rec["offered"]
    if "tasks" in rec:
        off_ids = {id(x) for x in offered}
        prev = [x for x in rec["tasks"] if id(x) not in off_ids]
    else:
        prev = rec.get("prev", [])
    tasks = list(offered) + list(prev)
    tix = {id(x): i for i, x in enumerate(tasks)}
    workers = t.worker_order(w, rec)
    widx = {wk.id: i for i, wk in enumerate(workers)}
    pool_of = {wk.id: pool.name for wk, pool in w.workers}
    profiles, pidx = [], {}
    for x in tasks:
        if id(x.profile) not in pidx:
            pidx[id(x.profile)] = len(profiles)
            profiles.append(x.profile)
    prev_strats, gidx = [], {}
    jt = []
    for x in tasks:
        prevW, prevG, remaining = len(workers), 0, 0
        if x.state.name in ("RUNNING", "SCHEDULED") and x.current_placement is not None:
            cp = x.current_placement
            prevW = widx.get(cp.worker_id, len(workers))
            if id(cp.execution_strategy) not in gidx:
                gidx[id(cp.execution_strategy)] = len(prev_strats)
                prev_strats.append(cp.execution_strategy)
            prevG = gidx[id(cp.execution_strategy)]
            remaining = t._t(x.remaining_time)
        jt.append(
            {
                "uniq": x.unique_name,
                "state": x.state.name,
                "release": t._t(x.release_time),
                "deadline": t._t(x.deadline),
                "profile": pidx[id(x.profile)],
                "prevW": prevW,
                "prevG": prevG,
                "remaining": remaining,
            }
        )
    order = []
    for _profile, ts in rec.get("set_order", []):
        order += [tix[id(x)] for x in ts if id(x) in tix]
    order += [i for i in range(len(tasks)) if i not in set(order)]
    f = w.spec["flags"]
    return {
        "batching": True,
        "now": w.now,
        "disc": f["disc"],
        "plan_ahead": f["plan_ahead"],
        "workers": [{"name": wk.name, "pool": pool_of[wk.id], "res": [[r.name, q] for r, q in wk.resources.resources]} for wk in workers],
        "profiles": [{"name": p.name, "strats": [_bstrat(s) for s in p.execution_strategies]} for p in profiles],
        "prevStrats": [_bstrat(s) for s in prev_strats],
        "tasks": jt,
        "nOffered": len(offered),
        "setOrder": order,
        "enforce_deadlines": f["enforce_deadlines"],
        "retract": f["retract"],
    }


def real_decisions(w, rec) -> list[dict]:
    """Returned Placements in canonical form (order kept); the reported `BatchStrategy` is named after the
    BatchTask it belongs to."""
    t = T()
    R = t._repo()
    workers = t.worker_order(w, rec)
    widx = {wk.id: i for i, wk in enumerate(workers)}
    pool_name = {pool.id: pool.name for pool in w.pools}
    bname = {}
    for name, tv in (rec.get("tvars") or {}).items():
        for s in tv.task.available_execution_strategies:
            bname[id(s)] = name
    CANCEL = R["Placement"].PlacementType.CANCEL_TASK
    out = []
    for p in rec["placements"]:
        task = p.task
        if p.placement_type == CANCEL:
            out.append({"task": task.unique_name, "kind": "cancel"})
        elif p.is_placed():
            s = p.execution_strategy
            out.append(
                {
                    "task": task.unique_name,
                    "kind": "placed",
                    "worker": widx.get(p.worker_id, -1),
                    "pool": pool_name.get(p.worker_pool_id, "?"),
                    "batch": bname.get(id(s), "?"),
                    "runtime": t._t(s.runtime),
                    "batch_size": s.batch_size,
                    "req": [[r.name, q] for r, q in s.resources.resources],
                    "time": t._t(p.placement_time),
                }
            )
        else:
            out.append({"task": task.unique_name, "kind": "unplaced"})
    return out


def real_batches(w, rec) -> list[dict]:
    """The BatchTasks the code built, in `tasks_to_variables` order (compared with the model's)."""
    t = T()
    out = []
    for name, tv in (rec.get("tvars") or {}).items():
        bt = tv.task
        if not hasattr(bt, "tasks"):
            out.append({"name": name, "members": None})
            continue
        s = bt.available_execution_strategies[0]
        st = bt.state.name
        kind = "running" if st == "RUNNING" else "must" if (st == "SCHEDULED" and not w.spec["flags"]["retract"]) else "free"
        out.append(
            {
                "name": name,
                "members": [m.unique_name for m in bt.tasks],
                "kind": kind,
                "release": t._t(bt.release_time),
                "deadline": t._t(bt.deadline),
                "runtime": t._t(s.runtime),
                "batch_size": s.batch_size,
                "req": [[r.name, q] for r, q in s.resources.resources],
            }
        )
    return out


def second_pass(triples, replies):
    t = T()
    cases2, idx2 = [], []
    for i, ((w, rec, case), reply) in enumerate(zip(triples, replies)):
        if reply.get("nomodel") or reply.get("raises") or "protocol_error" in reply or rec["err"] is not None or not rec["solved"]:
            continue
        try:
            real = t.canon_cplex(rec, reply["den"], Fraction(*reply["obj_const"]))
        except t.NotRational as e:
            rec["canon_err"] = str(e)
            continue
        rec["canon"] = real
        sig, bad = t.solver_sigma(rec, real["labels"], set(reply.get("scaled", [])), reply["den"])
        rec["sigma_bad"] = bad
        c2 = dict(case)
        c2["sigma"] = sig
        c2["model"] = False
        cases2.append(c2)
        idx2.append(i)
    replies2 = common.run_driver(cases2) if cases2 else []
    return dict(zip(idx2, replies2))


def canon_lean(reply: dict) -> dict:
    t = T()
    out = t.canon_lean(reply)
    out["obj"][1] = t._fs(Fraction(*reply["obj_const"]))
    return out


def compare_case(w, rec, reply, reply2) -> list[str]:
    """Correspondence: BatchTasks, captured docplex model vs `genB`, placements vs `decodeB`."""
    t = T()
    dis = []
    if "protocol_error" in reply:
        return [f"driver protocol error: {reply['protocol_error']}"]
    if not reply.get("wf", False):
        dis.append("extracted instance violates the theorems' well-formedness hypotheses (BInst.wf = false)")
    if reply.get("raises"):
        if rec["err"] is None or not rec["err"].startswith("ValueError"):
            dis.append(f"model predicts ValueError (a profile without BatchTask), the real call: {rec['err'] or 'returned normally'}")
        return dis
    if rec["err"] is not None:
        return dis + [f"schedule() raised {rec['err']} (the model predicts no exception)"]
    real = real_decisions(w, rec)
    if reply.get("nomodel"):
        if rec["n_models"] != 0:
            dis.append("model predicts that no solver model is built, the real call built one")
        if reply.get("decode_nomodel") != real:
            dis.append(f"decisions without model differ: real={real} model={reply.get('decode_nomodel')}")
        return dis
    if rec["model"] is None:
        return dis + ["model predicts a solver model, the real call built none"]
    mine = [{k: b[k] for k in ("name", "members", "kind", "release", "deadline", "runtime", "batch_size", "req")} for b in reply.get("batches", [])]
    theirs = real_batches(w, rec)
    if mine != theirs:
        k = next((i for i, (a, b) in enumerate(zip(mine, theirs)) if a != b), min(len(mine), len(theirs)))
        dis.append(f"BatchTasks differ at #{k}: real={theirs[k:k + 1]} model={mine[k:k + 1]} (real {len(theirs)}, model {len(mine)})")
    if "canon_err" in rec:
        return dis + [f"captured coefficient is not a multiple of 1/den: {rec['canon_err']}"]
    if "canon" not in rec:
        try:
            rec["canon"] = t.canon_cplex(rec, reply["den"], Fraction(*reply["obj_const"]))
        except t.NotRational as e:
            return dis + [f"captured coefficient is not a multiple of 1/den: {e}"]
    dis += t.diff_models(rec["canon"], canon_lean(reply))
    if rec["solved"]:
        if reply2 is None:
            return dis + ["no driver reply for the solver point"]
        if "protocol_error" in reply2:
            return dis + [f"driver protocol error: {reply2['protocol_error']}"]
        if rec.get("sigma_bad"):
            dis.append(f"solver returned non-integral values {rec['sigma_bad'][:3]}")
        if not reply2.get("sat", False):
            dis.append(f"solver point does not satisfy genB inst: {reply2.get('violated')[:4]}")
        if reply2.get("decode") != real:
            dis.append(f"decode differs: real={real} model={reply2.get('decode')}")
        den = reply["den"]
        ov = t.objective_value(rec) * den
        mv = reply2.get("objval", 0) + float(Fraction(*reply["obj_const"])) * den
        if abs(ov - mv) > 1e-5 * max(1.0, abs(ov)):
            dis.append(f"objective value real={ov}/{den} model={mv}/{den}")
    else:
        if reply.get("decode_fail") != real:
            dis.append(f"failure decisions differ: real={real} model={reply.get('decode_fail')}")
    return dis


def canonical_case(spec: dict) -> dict:
    return {k: spec[k] for k in ("backend", "batching", "now", "pools", "profiles", "graphs", "flags")}


def run(prop: str, chk, rng, tier: str) -> list[str]:
    """Batching sub-suite of the tetri plugin for C10 / C12."""
    t = T()
    if prop not in ("C10", "C12"):
        return []
    t0 = _time.time()
    specs = gen_specs(prop, rng, tier)
    rcs = [(spec,) + t._quiet_schedule(spec) for spec in specs]
    triples = [(w, rec, case) for _, w, rec, case in rcs if case is not None]
    replies = common.run_driver([c for _, _, c in triples]) if triples else []
    rep2 = second_pass(triples, replies)
    dis = []
    k = 0
    for spec, w, rec, case in rcs:
        reply = reply2 = None
        if case is not None:
            reply, reply2 = replies[k], rep2.get(k)
            k += 1
        f = spec["flags"]
        n_off = len(rec.get("offered") or [])
        placed = 0 if rec["placements"] is None else sum(1 for p in rec["placements"] if p.is_placed())
        nb = len(rec.get("tvars") or {})
        multi = sum(1 for _, ms, _ in _built_batches(rec) if len(ms) > 1)
        chk.case({"planner": t.NAME, "spec": canonical_case(spec)}, nontrivial=(n_off > 0 and (rec["model"] is not None or rec["err"] is not None)))
        chk.count("tetri-batch:cases")
        chk.count(f"tetri-batch:offered={min(n_off, 6)}")
        chk.count(f"tetri-batch:placed={min(placed, 6)}")
        chk.count(f"tetri-batch:batches={min(nb, 8)}")
        chk.count(f"tetri-batch:multi-member-batches={min(multi, 5)}")
        chk.count(f"tetri-batch:enforce={f['enforce_deadlines']},retract={f['retract']}")
        chk.count("tetri-batch:" + ("raised" if rec["err"] else "no-model" if rec["model"] is None else "solved" if rec["solved"] else "no-solution"))
        if reply is not None:
            chk.traces_validated += 1
            for x in compare_case(w, rec, reply, reply2):
                dis.append(f"[tetri batching case] {x} :: spec={json.dumps(canonical_case(spec))[:600]}")
        elif rec["err"] is None and rec.get("offered") is None:
            dis.append("[tetri batching] schedule() did not ask the workload for schedulable tasks")
        run_oracles(prop, chk, spec, w, rec)
        t.release_model(rec)
    chk.extra.setdefault("planner_wall_s", {})[f"tetri-batch/{prop}"] = round(_time.time() - t0, 1)
    return dis


def search(prop: str, chk, rng, tier: str) -> None:
    """Failing-input search on the real code only: widened batching generator + oracles."""
    t = T()
    if prop not in ("C10", "C12"):
        return
    for spec in gen_specs(prop, rng, tier, widened=True):
        try:
            w, rec, _case = t._quiet_schedule(spec)
        except Exception:
            continue
        try:
            run_oracles(prop, chk, spec, w, rec, found_input=True)
        finally:
            t.release_model(rec)
