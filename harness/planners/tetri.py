"""Planner plugin: the two TetriSched formulations
(schedulers/tetrisched_gurobi_scheduler.py, Gurobi back-end, and
schedulers/tetrisched_cplex_scheduler.py, docplex/CPLEX back-end, non-batching mode here,
batching mode (`BatchTask`) in `_tetri_batch.py`, which `run` / `search` / `replay` call for C10 and C12)
for the planner clauses of C10, C11 (Gurobi only), C12 and C14.

For every generated invocation the plugin

1. builds the real objects (Workload / TaskGraph / Task in generated states,
   WorkerPools with RUNNING tasks really placed) from a JSON *world spec*;
2. runs the REAL `schedule()` of the chosen back-end with the solver model captured
   (Gurobi: subclass of `gurobipy.Model` installed in the module under test, recorded
   at `optimize()`; CPLEX: `docplex.mp.model.Model.solve` wrapped, `end()` deferred)
   and with the live cluster / task state snapshotted before and after;
3. derives the Lean instance from what the model-building code was really given
   (`get_schedulable_tasks` result, `_add_variables` arguments), pipes it through the
   Lean driver (`genG inst` / `genC inst`, `decode inst σ_solver`, `sat σ_solver`,
   the list of still addable cells);
4. compares the captured constraint system with the generator's output term by term
   (canonicalised: like terms merged, constants moved right, everything sorted,
   strategy uuids replaced by strategy indices, float rewards matched as exact
   fractions n/D) and the returned Placements with `decode`;
5. runs the model-independent oracle of the property on the real Placements; for C11
   asks Gurobi for a feasible point of the CAPTURED REAL model that violates
   precedence; for C14 checks by brute force whether one more offered task could be
   added to the returned plan.

`run` returns the list of correspondence disagreements (empty = model and code agree).
Oracle failures are reported through `chk.violation`.
"""
from __future__ import annotations

import json
import logging
import random as _pyrandom
import re
import time as _time
from fractions import Fraction

from harness import common
from harness.planners import _worlds

NAME = "tetri"
PROPS = {"C10", "C11", "C12", "C14"}
SUITE = "mip_tetri"

# --------------------------------------------------------------------------
# Real-code access
# --------------------------------------------------------------------------

_R = {}


def _repo():
    """Import the real implementation once (from $ERDOS_REPO or /repo)."""
    if _R:
        return _R
    common.use_repo()
    logging.disable(logging.CRITICAL)
    import gurobipy as gp
    from gurobipy import GRB

    gp.setParam("OutputFlag", 0)  # silence "Set parameter ..." chatter; not a model parameter

    import docplex.mp.model as dpx
    import schedulers.tetrisched_cplex_scheduler as cplex_mod
    import schedulers.tetrisched_gurobi_scheduler as gurobi_mod
    from schedulers.tetrisched_cplex_scheduler import TetriSchedCPLEXScheduler
    from schedulers.tetrisched_gurobi_scheduler import TetriSchedGurobiScheduler
    from utils import EventTime
    from workers import Worker, WorkerPool, WorkerPools
    from workload import (
        BatchStrategy,
        ExecutionStrategies,
        ExecutionStrategy,
        Job,
        Placement,
        Resource,
        Resources,
        Task,
        TaskGraph,
        TaskState,
        Workload,
        WorkProfile,
    )

    base_model = gp.Model

    class CapModel(base_model):
        """gurobipy.Model that records itself when optimize() is called."""

        captured = []

        def optimize(self, *a, **k):
            self.update()
            CapModel.captured.append(self)
            return base_model.optimize(self, *a, **k)

    _R.update(locals())
    return _R


def US(t):
    R = _repo()
    return R["EventTime"](int(t), R["EventTime"].Unit.US)


def _t(et):
    R = _repo()
    return et.to(R["EventTime"].Unit.US).time


class World:
    pass


def build_world(spec: dict) -> World:
    """Construct the real objects described by `spec` (see `gen_world`)."""
    R = _repo()
    # The repo draws uuids from the global `random`; keep runs reproducible.
    _pyrandom.seed(spec.get("uuid_seed", 0))
    Resource, Resources = R["Resource"], R["Resources"]
    w = World()
    w.spec = spec
    w.now = spec["now"]
    w.backend = spec["backend"]
    w.workers = []  # global order = worker index order of the schedulers
    pools = []
    for p in spec["pools"]:
        ws = []
        for wk in p["workers"]:
            res = Resources({Resource(name=n): q for n, q in wk["res"]})
            ws.append(R["Worker"](name=wk["name"], resources=res))
        pool = R["WorkerPool"](name=p["name"], workers=ws)
        pools.append(pool)
        for worker in ws:
            w.workers.append((worker, pool))
    w.pools = pools
    w.worker_pools = R["WorkerPools"](pools)
    w.tasks = {}
    w.task_list = []
    graphs = {}

    def mk_strategies(strats):
        return R["ExecutionStrategies"](
            [
                R["ExecutionStrategy"](
                    resources=Resources(resource_vector={Resource(name=n, _id="any"): q for n, q in s["req"]}),
                    batch_size=s.get("batch", 1),
                    runtime=_worlds.et(R, s["runtime"], s.get("rt_ms")),  # mixed-unit flavour: some runtimes in ms
                )
                for s in strats
            ]
        )

    # batching worlds: WorkProfiles shared by several tasks (`t["profile"]` = index into spec["profiles"])
    w.profiles = [R["WorkProfile"](name=p["name"], execution_strategies=mk_strategies(p["strats"])) for p in spec.get("profiles", [])]
    w.prior_batches = {}  # prev["batch"] id -> the BatchStrategy object shared by the members of an earlier batch
    for g in spec["graphs"]:
        tasks = []
        for t in g["tasks"]:
            if "profile" in t:
                profile = w.profiles[t["profile"]]
            else:
                profile = R["WorkProfile"](name=f"{t['name']}_{g['name']}_profile", execution_strategies=mk_strategies(t["strats"]))
            task = R["Task"](
                name=t["name"],
                task_graph=g["name"],
                job=R["Job"](name=t["name"], profile=profile),
                deadline=_worlds.et(R, t["deadline"], t.get("dl_ms")),
                timestamp=t.get("ts", 0),
            )
            tasks.append(task)
        # node insertion order of the real graph = declaration order g["decl"] (default: index order)
        graphs[g["name"]] = R["TaskGraph"](name=g["name"], tasks=_worlds.children_mapping(g, tasks))
        for t, task in zip(g["tasks"], tasks):
            w.tasks[task.unique_name] = task
            w.task_list.append((t, task))
    w.workload = R["Workload"].from_task_graphs(graphs)
    for t, task in w.task_list:
        st = t["state"]
        if st == "VIRTUAL":
            if t.get("release") is not None:
                task._release_time = _worlds.et(R, t["release"], t.get("rel_ms"))  # estimated release of a not yet released task
            continue
        task.release(_worlds.et(R, t["release"], t.get("rel_ms")))
        if st == "RELEASED":
            continue
        prev = t["prev"]
        worker, pool = w.workers[prev["w"]]
        strategy = task.available_execution_strategies[prev["s"]]
        if prev.get("batch") is not None:
            # placed by an earlier batching invocation: the members of one batch share one BatchStrategy
            if prev["batch"] not in w.prior_batches:
                w.prior_batches[prev["batch"]] = R["BatchStrategy"](execution_strategy=strategy)
            strategy = w.prior_batches[prev["batch"]]
        placement = R["Placement"].create_task_placement(
            task=task,
            placement_time=US(prev["time"]),
            worker_pool_id=pool.id,
            worker_id=worker.id,
            execution_strategy=strategy,
        )
        task.schedule(US(prev["sched_at"]), placement)
        if st == "SCHEDULED":
            continue
        task.start(US(prev["time"]))
        if st == "RUNNING":
            ok = pool.place_task(task, execution_strategy=strategy, worker_id=worker.id)
            if not ok:
                raise RuntimeError("generator produced an over-subscribed RUNNING set")
            task.update_remaining_time(US(prev["remaining"]))
            continue
        if st == "COMPLETED":
            task.update_remaining_time(US(0))
            task.finish(US(prev["finish"]))
            continue
        raise ValueError(st)
    f = spec["flags"]
    kw = dict(
        runtime=US(0),
        lookahead=US(f["lookahead"]),
        enforce_deadlines=f["enforce_deadlines"],
        retract_schedules=f["retract"],
        time_discretization=US(f["disc"]),
        plan_ahead=US(f["plan_ahead"]),
    )
    if w.backend == "gurobi":
        w.scheduler = R["TetriSchedGurobiScheduler"](release_taskgraphs=f["release_taskgraphs"], **kw)
    else:
        w.scheduler = R["TetriSchedCPLEXScheduler"](batching=bool(spec.get("batching", False)), **kw)
    if spec.get("warmup"):
        # warm-scheduler flavour: the same scheduler object has already been invoked once, on an unrelated world
        _worlds.run_warmup(R, w.scheduler, spec["warmup"])
    return w


def snapshot(w: World):
    """Every live getter the property talks about: cluster occupancy and task fields."""
    R = _repo()
    cl = []
    for worker, pool in w.workers:
        res = worker.resources
        cl.append(
            (
                worker.name,
                sorted((r.name, r.id == "any", q) for r, q in res.resources),
                sorted((n, res.get_available_quantity(R["Resource"](name=n, _id="any"))) for n in {r.name for r, _ in res.resources}),
                sorted(t.unique_name for t in worker.get_placed_tasks()),
            )
        )
    ts = []
    for _, task in w.task_list:
        cp = task.current_placement
        ts.append(
            (
                task.unique_name,
                str(task.state),
                _t(task.release_time),
                _t(task.deadline),
                None if cp is None else (id(cp), cp.placement_time.time, cp.worker_id, id(cp.execution_strategy)),
                None if task._remaining_time is None else task._remaining_time.time,
                task.start_time.time,
                task.worker_pool_id,
                len(task.available_execution_strategies),
            )
        )
    return (cl, ts)


def real_schedule(w: World) -> dict:
    """Run the real schedule() with capture. Returns everything observed."""
    R = _repo()
    rec = {"backend": w.backend}
    sched = w.scheduler
    orig_add = sched._add_variables
    orig_get = w.workload.get_schedulable_tasks
    orig_filter = w.workload.filter

    def get_wrapper(*a, **k):
        out = orig_get(*a, **k)
        rec["offered"] = list(out)  # the CPLEX scheduler later removes hopeless tasks from `out`
        return out

    def filter_wrapper(fn):
        out = orig_filter(fn)
        rec.setdefault("prev", list(out))  # first call = previously placed tasks
        return out

    def add_wrapper(sim_time, optimizer, tasks_to_be_scheduled, workers):
        rec["tasks"] = list(tasks_to_be_scheduled)
        rec["workers"] = dict(workers)
        out = orig_add(sim_time=sim_time, optimizer=optimizer, tasks_to_be_scheduled=tasks_to_be_scheduled, workers=workers)
        rec["tvars"] = out  # name -> TaskOptimizerVariables (batching: one per BatchTask), dict order
        return out

    w.workload.get_schedulable_tasks = get_wrapper
    w.workload.filter = filter_wrapper
    sched._add_variables = add_wrapper
    orig_batch = getattr(sched, "_create_batch_task_variables", None)
    if orig_batch is not None:

        def batch_wrapper(sim_time, plan_ahead, optimizer, profile, tasks, workers):
            # `tasks` is a Python set: its iteration order (hash order) is an input of the batching glue
            rec.setdefault("set_order", []).append((profile, list(tasks)))
            return orig_batch(sim_time=sim_time, plan_ahead=plan_ahead, optimizer=optimizer, profile=profile, tasks=tasks, workers=workers)

        sched._create_batch_task_variables = batch_wrapper
    err = None
    placements = None
    model = None
    solution = None
    n_models = 0
    if w.backend == "gurobi":
        gmod, CapModel = R["gurobi_mod"], R["CapModel"]
        CapModel.captured.clear()
        saved_model = gmod.gp.Model
        gmod.gp.Model = CapModel
        before = snapshot(w)
        try:
            placements = sched.schedule(US(w.now), w.workload, w.worker_pools)
        except Exception as e:  # an exception is an outcome
            err = type(e).__name__ + ": " + str(e)[:200]
        finally:
            gmod.gp.Model = saved_model
        after = snapshot(w)
        n_models = len(CapModel.captured)
        model = CapModel.captured[-1] if CapModel.captured else None
    else:
        dpx = R["dpx"]
        cap = []
        orig_solve, orig_end = dpx.Model.solve, dpx.Model.end

        def solve(self, *a, **k):
            sol = orig_solve(self, *a, **k)
            cap.append((self, sol))
            return sol

        dpx.Model.solve = solve
        dpx.Model.end = lambda self: None  # keep the model readable; ended below
        before = snapshot(w)
        try:
            placements = sched.schedule(US(w.now), w.workload, w.worker_pools)
        except Exception as e:
            err = type(e).__name__ + ": " + str(e)[:200]
        finally:
            dpx.Model.solve, dpx.Model.end = orig_solve, orig_end
        after = snapshot(w)
        n_models = len(cap)
        if cap:
            model, solution = cap[-1]
    del w.workload.get_schedulable_tasks
    del w.workload.filter
    del sched._add_variables
    if orig_batch is not None:
        del sched._create_batch_task_variables
    rec.update(placements=placements, err=err, pure=(before == after), model=model, solution=solution, n_models=n_models)
    return rec


def release_model(rec):
    """Free the CPLEX engine of a captured docplex model."""
    if rec.get("backend") == "cplex" and rec.get("model") is not None:
        try:
            rec["model"].end()
        except Exception:
            pass


# --------------------------------------------------------------------------
# Lean instance + canonical forms
# --------------------------------------------------------------------------


def worker_order(w: World, rec: dict):
    """Workers in scheduler index order (1-based index in the code = position + 1)."""
    if "workers" in rec:
        return [wk for _, wk in rec["workers"].items()]
    return [wk for wk, _ in w.workers]


def extract_inst(w: World, rec: dict) -> dict:
    """The Lean instance, read from what the model-building code was really given: the offered
    tasks (before CPLEX admission control), then the previously placed ones."""
    offered = rec["offered"]
    if "tasks" in rec:
        off_ids = {id(t) for t in offered}
        prev = [t for t in rec["tasks"] if id(t) not in off_ids]
    else:
        prev = rec.get("prev", [])
    tasks = list(offered) + list(prev)
    workers = worker_order(w, rec)
    widx = {wk.id: i for i, wk in enumerate(workers)}
    pool_of = {wk.id: pool.name for wk, pool in w.workers}
    jt = []
    for task in tasks:
        strats = list(task.available_execution_strategies)
        prevW = prevS = 0
        remaining = 0
        if task.state.name == "RUNNING":
            cp = task.current_placement
            prevW = widx.get(cp.worker_id, len(workers))
            cand = [i for i, s in enumerate(strats) if s is cp.execution_strategy]
            prevS = cand[0] if cand else len(strats)
            remaining = _t(task.remaining_time)
        jt.append(
            {
                "uniq": task.unique_name,
                "name": task.name,
                "ts": task.timestamp,
                "graph": task.task_graph,
                "state": task.state.name,
                "release": _t(task.release_time),
                "deadline": _t(task.deadline),
                "strats": [{"runtime": _t(s.runtime), "req": [[r.name, q] for r, q in s.resources.resources]} for s in strats],
                "prevW": prevW,
                "prevS": prevS,
                "remaining": remaining,
            }
        )
    jw = [{"name": wk.name, "pool": pool_of[wk.id], "res": [[r.name, q] for r, q in wk.resources.resources]} for wk in workers]
    nodes, edges = [], []
    for gname in dict.fromkeys(t.task_graph for t in tasks):
        g = w.workload.get_task_graph(gname)
        for n in g.get_nodes():
            nodes.append({"uniq": n.unique_name, "name": n.name, "ts": n.timestamp, "graph": n.task_graph})
            for c in g.get_children(n):
                edges.append([n.unique_name, c.unique_name])
    f = w.spec["flags"]
    return {
        "cplex": w.backend == "cplex",
        "now": w.now,
        "disc": f["disc"],
        "plan_ahead": f["plan_ahead"],
        "workers": jw,
        "tasks": jt,
        "nOffered": len(offered),
        "nodes": nodes,
        "edges": edges,
        "enforce_deadlines": f["enforce_deadlines"],
        "retract": f["retract"],
        "release_taskgraphs": bool(f.get("release_taskgraphs", False)) and w.backend == "gurobi",
    }


class NotRational(Exception):
    pass


def _frac(x, den: int) -> Fraction:
    """A solver coefficient as an exact multiple of 1/den (rewards are n/D by construction)."""
    if x is None:
        return None
    x = float(x)
    y = x * den
    r = round(y)
    if abs(y - r) > 1e-6 * max(1.0, abs(y)):
        raise NotRational(f"{x} is not a multiple of 1/{den}")
    return Fraction(int(r), den)


def _fs(q: Fraction):
    return [q.numerator, q.denominator]


def _canon_terms(terms):
    L = {}
    for c, v in terms:
        L[v] = L.get(v, Fraction(0)) + c
    return sorted([v, _fs(c)] for v, c in L.items() if c != 0)


_CELL = re.compile(r"^(.*)_placed_at_Worker_(\d+)_on_Time_(-?\d+)_with_strategy_(.+)$")


def name_canon(rec: dict):
    """Variable names carry `strategy.id` (a uuid): replace it by the strategy's index in the
    task's `available_execution_strategies`."""
    sid = {}
    for task in rec.get("tasks", []):
        for i, s in enumerate(task.available_execution_strategies):
            sid[(task.unique_name, s.id)] = i
    for name, tv in (rec.get("tvars") or {}).items():
        if hasattr(tv.task, "tasks"):  # batching mode: a BatchTask has one strategy, its BatchStrategy
            for i, s in enumerate(tv.task.available_execution_strategies):
                sid[(name, s.id)] = i

    def canon(n: str) -> str:
        m = _CELL.match(n)
        if not m:
            return n
        k = sid.get((m.group(1), m.group(4)))
        if k is None:
            return n
        return f"{m.group(1)}_placed_at_Worker_{m.group(2)}_on_Time_{m.group(3)}_with_strategy_{k}"

    return canon


def _labels(names):
    seen, out = {}, []
    for n in names:
        k = seen.get(n, 0)
        seen[n] = k + 1
        out.append(f"{n}#{k}")
    return out


def _bound(x, den):
    if x is None or x >= 1e20 or x <= -1e20:
        return None
    return _fs(_frac(x, den))


def canon_gurobi(rec: dict, den: int) -> dict:
    """Canonical form of the captured Gurobi model."""
    R = _repo()
    GRB = R["GRB"]
    m = rec["model"]
    cn = name_canon(rec)
    vs = m.getVars()
    labs = _labels([cn(v.VarName) for v in vs])
    lab = {v.index: labs[i] for i, v in enumerate(vs)}

    def lin_terms(e):
        return [(_frac(e.getCoeff(i), den), lab[e.getVar(i).index]) for i in range(e.size())]

    vars_ = [[lab[v.index], v.VType, _bound(v.LB, den), _bound(v.UB, den)] for v in vs]
    cons = []
    for c in m.getConstrs():
        r = m.getRow(c)
        cons.append(["lin", c.ConstrName, _canon_terms(lin_terms(r)), c.Sense, _fs(_frac(c.RHS, den) - _frac(r.getConstant(), den))])
    for g in m.getGenConstrs():
        if g.GenConstrType == GRB.GENCONSTR_INDICATOR:
            b, val, e, sense, rhs = m.getGenConstrIndicator(g)
            cons.append(["ind", g.GenConstrName, lab[b.index], int(val), _canon_terms(lin_terms(e)), sense, _fs(_frac(rhs, den) - _frac(e.getConstant(), den))])
        elif g.GenConstrType == GRB.GENCONSTR_AND:
            r, args = m.getGenConstrAnd(g)
            cons.append(["and", g.GenConstrName, lab[r.index], sorted(lab[v.index] for v in args)])
        else:
            cons.append(["other", g.GenConstrName, int(g.GenConstrType)])
    for qc in m.getQConstrs():
        cons.append(["other", qc.QCName, "quadratic"])
    o = m.getObjective()
    if hasattr(o, "getLinExpr"):
        obj = ["quadratic objective"]
    else:
        obj = [_canon_terms(lin_terms(o)), _fs(_frac(o.getConstant(), den))]
    return {"vars": sorted(vars_), "constrs": sorted(json.dumps(c) for c in cons), "obj": obj, "sense": int(m.ModelSense), "labels": labs}


def canon_cplex(rec: dict, den: int, obj_const: Fraction | None = None) -> dict:
    """Canonical form of the captured docplex model (walked through its public iterators).
    `obj_const` (batching mode): the objective constant is a sum of interpolated float priorities, not a
    multiple of 1/den; it is compared with the exact fraction the model computes."""
    m = rec["model"]
    cn = name_canon(rec)
    vs = list(m.iter_variables())
    labs = _labels([cn(v.name) for v in vs])
    lab = {id(v): labs[i] for i, v in enumerate(vs)}
    vt = {"binary": "B", "integer": "I", "continuous": "C"}
    vars_ = [[lab[id(v)], vt.get(v.vartype.short_name, v.vartype.short_name), _bound(v.lb, den), _bound(v.ub, den)] for v in vs]
    sense = {"LE": "<", "GE": ">", "EQ": "="}

    def terms(e, sign=1):
        return [(sign * _frac(k, den), lab[id(v)]) for v, k in e.iter_terms()]

    def const(e):
        return _frac(e.get_constant() if hasattr(e, "get_constant") else e.constant, den)

    cons = []
    n_lin = 0
    for c in m.iter_constraints():
        if type(c).__name__ != "LinearConstraint":
            cons.append(["other", c.name, type(c).__name__])
            continue
        n_lin += 1
        le, re_ = c.left_expr, c.right_expr
        cons.append(["lin", c.name or "", _canon_terms(terms(le) + terms(re_, -1)), sense[c.sense.name], _fs(const(re_) - const(le))])
    if n_lin != m.number_of_constraints:
        cons.append(["other", "constraint-count", m.number_of_constraints])
    o = m.objective_expr
    if o.is_quad_expr() if hasattr(o, "is_quad_expr") else False:
        obj = ["quadratic objective"]
    elif obj_const is not None:
        k = float(o.get_constant() if hasattr(o, "get_constant") else o.constant)
        close = abs(k - float(obj_const)) <= 1e-9 * max(1.0, abs(k))
        obj = [_canon_terms(terms(o)), _fs(obj_const) if close else ["float", k]]
    else:
        obj = [_canon_terms(terms(o)), _fs(const(o))]
    return {"vars": sorted(vars_), "constrs": sorted(json.dumps(c) for c in cons), "obj": obj, "sense": -1 if m.is_maximized() else 1, "labels": labs}


def canon_lean(reply: dict) -> dict:
    """Canonical form of `genG inst` / `genC inst` as rendered by the Lean driver.  The model is
    integral: a row / the objective rendered with `"den": D` stands for the real row divided by D,
    where a variable listed in `"scaled"` stands for D times the real (continuous) variable."""
    scaled = set(reply.get("scaled", []))

    def coef(c, v, den):
        return Fraction(c) if v in scaled else Fraction(c, den)

    def expr(e, den):
        return _canon_terms([(coef(c, v, den), v) for c, v in e["t"]]), Fraction(e["c"], den)

    vars_ = []
    D = reply.get("den", 1)
    for v in reply["vars"]:
        if v["name"] in scaled:
            vars_.append([v["name"], "C", None if v["lb"] is None else _fs(Fraction(v["lb"], D)), None if v["ub"] is None else _fs(Fraction(v["ub"], D))])
        elif v["vtype"] == "B":
            vars_.append([v["name"], "B", [0, 1], [1, 1]])
        else:
            vars_.append([v["name"], "I", None if v["lb"] is None else [v["lb"], 1], None if v["ub"] is None else [v["ub"], 1]])
    cons = []
    for c in reply["constrs"]:
        den = c.get("den", 1)
        if c["kind"] == "lin":
            l, k = expr(c["e"], den)
            cons.append(["lin", c["name"], l, c["sense"], _fs(Fraction(c["rhs"], den) - k)])
        elif c["kind"] == "ind":
            l, k = expr(c["e"], den)
            cons.append(["ind", c["name"], c["b"], c["val"], l, c["sense"], _fs(Fraction(c["rhs"], den) - k)])
        elif c["kind"] == "and":
            cons.append(["and", c["name"], c["r"], sorted(c["args"])])
    l, k = expr(reply["obj"], D)
    return {"vars": sorted(vars_), "constrs": sorted(json.dumps(c) for c in cons), "obj": [l, _fs(k)], "sense": -1}


def diff_models(a: dict, b: dict) -> list[str]:
    """a = captured real model, b = Lean gen. Returns human-readable differences."""
    out = []
    if a["sense"] != b["sense"]:
        out.append(f"objective sense real={a['sense']} model={b['sense']}")
    if a["obj"] != b["obj"]:
        out.append(f"objective real={a['obj']} model={b['obj']}")
    if a["vars"] != b["vars"]:
        sa, sb = {json.dumps(v) for v in a["vars"]}, {json.dumps(v) for v in b["vars"]}
        out.append(f"variables only-real={sorted(sa - sb)[:4]} only-model={sorted(sb - sa)[:4]}")
    if a["constrs"] != b["constrs"]:
        from collections import Counter

        ca, cb = Counter(a["constrs"]), Counter(b["constrs"])
        out.append(f"constraints only-real={sorted((ca - cb).elements())[:3]} only-model={sorted((cb - ca).elements())[:3]}")
    return out


def real_decisions(w: World, rec: dict) -> list[dict]:
    """Returned Placements in canonical form (order kept)."""
    R = _repo()
    workers = worker_order(w, rec)
    widx = {wk.id: i for i, wk in enumerate(workers)}
    pool_name = {pool.id: pool.name for pool in w.pools}
    CANCEL = R["Placement"].PlacementType.CANCEL_TASK
    out = []
    for p in rec["placements"]:
        task = p.task
        if p.placement_type == CANCEL:
            out.append({"task": task.unique_name, "kind": "cancel"})
        elif p.is_placed():
            strats = list(task.available_execution_strategies)
            sidx = [i for i, s in enumerate(strats) if s is p.execution_strategy]
            out.append(
                {
                    "task": task.unique_name,
                    "kind": "placed",
                    "worker": widx.get(p.worker_id, -1),
                    "pool": pool_name.get(p.worker_pool_id, "?"),
                    "strategy": sidx[0] if sidx else -1,
                    "time": _t(p.placement_time),
                }
            )
        else:
            out.append({"task": task.unique_name, "kind": "unplaced"})
    return out


def solved(rec: dict) -> bool:
    R = _repo()
    m = rec["model"]
    if m is None:
        return False
    if rec["backend"] == "gurobi":
        GRB = R["GRB"]
        return m.Status == GRB.OPTIMAL or (m.Status == GRB.INTERRUPTED and getattr(m, "_solution_found", False))
    return bool(rec["solution"])


def solver_sigma(rec: dict, labs: list[str], scaled: set, den: int):
    """The solver's point as integers per label (a scaled variable is reported times `den`)."""
    sig, bad = {}, []
    if rec["backend"] == "gurobi":
        vals = [v.X for v in rec["model"].getVars()]
    else:
        sol = rec["solution"]
        vals = [sol.get_value(v) for v in rec["model"].iter_variables()]
    for lab, x in zip(labs, vals):
        y = x * den if lab in scaled else x
        r = round(y)
        if abs(y - r) > 1e-6:
            bad.append(f"{lab}={x}")
        sig[lab] = int(r)
    return sig, bad


def objective_value(rec: dict) -> float:
    if rec["backend"] == "gurobi":
        return rec["model"].ObjVal
    return rec["solution"].objective_value


# --------------------------------------------------------------------------
# Generators
# --------------------------------------------------------------------------


def gen_world(rng, kind: str, backend: str) -> dict:
    """A world spec. `kind`: 'c14' (enumerable instance within the property's bound),
    'dag' (graph shapes for C11), 'mix' (states/occupancy for C10), 'deadline' (C12)."""
    now = rng.choice([0, 0, 2, 5])
    small = kind == "c14"
    disc = rng.choice([1, 1, 2, 3])
    # "late" flavour: every (absolute) deadline is small and already (nearly) passed while the runtimes
    # are long, the horizon is derived from the deadlines (default plan_ahead) and mostly a single
    # worker is contended — the horizon `now + greatest deadline` is then shorter than a runtime, so
    # the slot set of the variables and the slot set of the capacity rows are compared where they bite
    late = rng.random() < 0.15
    n_pools = 1 if small or rng.random() < 0.5 else 2
    n_workers = rng.randint(1, 2) if small else rng.randint(1, 3)
    if late and rng.random() < 0.7:
        n_workers = 1
    pools = [{"name": f"P{i}", "workers": []} for i in range(n_pools)]
    for i in range(n_workers):
        res = [["CPU", rng.randint(1, 3)]]
        if rng.random() < 0.5:
            res.append(["GPU", rng.randint(1, 2)])
        if rng.random() < 0.15:
            res.append(["CPU", 1])  # a second CPU entry: totals are summed per name
        pools[i % n_pools]["workers"].append({"name": f"W{i}", "res": res})
    pools = [p for p in pools if p["workers"]]
    order = [wk for p in pools for wk in p["workers"]]  # scheduler index order
    has_gpu = any(any(r == "GPU" for r, _ in wk["res"]) for wk in order)

    max_tasks = 4 if small else 5
    n_graphs = rng.randint(1, 3)
    max_slots = 12 if small else 14
    flags = {
        "enforce_deadlines": rng.random() < (0.8 if kind != "deadline" else 1.0),
        "retract": rng.random() < (0.5 if backend == "gurobi" else 0.3),
        "release_taskgraphs": backend == "gurobi" and rng.random() < (0.35 if kind in ("dag", "c14") else 0.15),
        "lookahead": rng.choice([0, 0, 4, 30]),
        "disc": disc,
        "plan_ahead": -1,
    }
    explicit_pa = rng.random() < 0.3 and not late
    if late:
        flags["enforce_deadlines"] = rng.random() < 0.35
    # absolute deadlines must keep `now + max deadline` inside the slot budget when plan_ahead
    # is derived from them (the code uses the greatest *absolute* deadline as a duration)
    span = (max_slots - 1) * disc
    if explicit_pa:
        flags["plan_ahead"] = rng.randint(max(1, span // 3), span)
        dl_hi = now + span
    else:
        dl_hi = span
    totals = []
    for wk in order:
        tot = {}
        for r, q in wk["res"]:
            tot[r] = tot.get(r, 0) + q
        totals.append(tot)
    booked = [[] for _ in order]  # per worker: (start, end, req dict), half-open

    def fits(wi, req, s0, e0):
        reqd = {}
        for rr, q in req:
            reqd[rr] = reqd.get(rr, 0) + q
        if any(totals[wi].get(rr, 0) < q for rr, q in reqd.items()):
            return False
        for tau in [s0] + [b[0] for b in booked[wi] if s0 <= b[0] < e0]:
            use = dict(reqd)
            for (bs, be, breq) in booked[wi]:
                if bs <= tau < be:
                    for rr, q in breq.items():
                        use[rr] = use.get(rr, 0) + q
            if any(q > totals[wi].get(rr, 0) for rr, q in use.items()):
                return False
        return True

    def book(wi, req, s0, e0):
        reqd = {}
        for rr, q in req:
            reqd[rr] = reqd.get(rr, 0) + q
        booked[wi].append((s0, e0, reqd))

    graphs = []
    total = 0
    for gi in range(n_graphs):
        if total >= max_tasks:
            break
        k = rng.randint(1, min(3 if small else 4, max_tasks - total))
        total += k
        if backend == "cplex":
            shape = rng.choice(["indep", "indep", "chain", "dag"])
        else:
            shape = rng.choice(["chain", "chain", "dag", "indep"])
        edges = []
        if shape == "chain":
            edges = [[i, i + 1] for i in range(k - 1)]
        elif shape == "dag":
            for a in range(k):
                for b in range(a + 1, k):
                    if rng.random() < 0.5:
                        edges.append([a, b])
        tasks = []
        for ti in range(k):
            ns = rng.randint(1, 2)
            strats = []
            for si in range(ns):
                req = [["CPU", rng.randint(1, 2)]]
                if has_gpu and rng.random() < 0.3:
                    req.append(["GPU", 1])
                if rng.random() < 0.1:
                    req = [["GPU", 1]] if has_gpu else req
                if rng.random() < 0.05:
                    req = [["CPU", 0]]  # zero request
                strats.append({"batch": 1, "runtime": rng.randint(4, 9) if late else rng.randint(1, 5), "req": req})
            tasks.append({"name": f"T{ti}", "ts": 0, "strats": strats})
        states = {}
        for ti, t in enumerate(tasks):
            parents = [a for a, b in edges if b == ti]
            pstates = [states[a] for a in parents]
            r = rng.random()
            if all(s == "COMPLETED" for s in pstates):
                if kind == "c14":
                    st = "RUNNING" if r < 0.15 else ("COMPLETED" if r < 0.25 and ti < k - 1 else "RELEASED")
                else:
                    st = "COMPLETED" if r < 0.2 and ti < k - 1 else "RUNNING" if r < 0.4 else "SCHEDULED" if r < 0.55 else "RELEASED"
            elif all(s in ("COMPLETED", "RUNNING", "SCHEDULED") for s in pstates) and r < 0.25 and kind != "c14":
                st = "SCHEDULED"  # planned ahead by an earlier invocation
            else:
                st = "VIRTUAL"
            release = max(0, now - rng.randint(0, 3))
            plan_ = None
            if st in ("RUNNING", "SCHEDULED", "COMPLETED"):
                opts = []
                for wi in range(len(order)):
                    for si, s_ in enumerate(t["strats"]):
                        rt = s_["runtime"]
                        if st == "RUNNING":
                            started = min(now, max(release, now - rng.randint(0, max(0, rt - 1))))
                            remaining = max(1, rt - (now - started))
                            # the planners book a RUNNING task for its full runtime from `now`
                            if fits(wi, s_["req"], now, now + rt):
                                opts.append((wi, si, started, remaining))
                        elif st == "SCHEDULED":
                            at = now + rng.randint(1, 5)
                            if fits(wi, s_["req"], at, at + rt):
                                opts.append((wi, si, at, rt))
                        else:
                            if all(totals[wi].get(rr, 0) >= q for rr, q in s_["req"]):
                                opts.append((wi, si, release, 0))
                if not opts:
                    st = "RELEASED" if all(s == "COMPLETED" for s in pstates) else "VIRTUAL"
                else:
                    plan_ = rng.choice(opts)
            states[ti] = st
            t["state"] = st
            if st == "VIRTUAL":
                t["release"] = None if rng.random() < 0.6 else now + rng.randint(0, 6)
            else:
                t["release"] = release
            if st == "RELEASED" and rng.random() < 0.15 and flags["lookahead"] > 0:
                t["release"] = now + rng.randint(1, 4)  # released in the future, inside/outside the lookahead
            if plan_ is not None:
                wi, si, at, rem = plan_
                if st == "RUNNING":
                    book(wi, t["strats"][si]["req"], now, now + t["strats"][si]["runtime"])
                    t["prev"] = {"w": wi, "s": si, "time": at, "sched_at": t["release"], "remaining": rem}
                elif st == "SCHEDULED":
                    book(wi, t["strats"][si]["req"], at, at + rem)
                    t["prev"] = {"w": wi, "s": si, "time": at, "sched_at": max(0, now - 1)}
                else:
                    t["prev"] = {"w": wi, "s": si, "time": t["release"], "sched_at": t["release"], "finish": now}
            fastest = min(s["runtime"] for s in t["strats"])
            r = rng.random()
            if late:
                d = rng.randint(0, 6)  # absolute, smaller than the runtimes
            elif kind == "deadline":
                d = now + fastest + rng.choice([-2, -1, 0, 1, 2, 3, 8])
            elif r < 0.08:
                d = now + fastest - rng.randint(0, 2)  # hopeless / boundary
            elif r < 0.3:
                d = now + fastest + rng.randint(0, 2)  # tight
            else:
                d = now + rng.randint(fastest + 1, max(fastest + 2, 8 + 3 * ti))
            d = max(0, min(d, dl_hi))
            if flags["enforce_deadlines"] and plan_ is not None and st in ("RUNNING", "SCHEDULED"):
                # reachable states only: an enforcing planner never scheduled a task past its deadline
                wi, si, at, rem = plan_
                d = max(d, at + t["strats"][si]["runtime"])
            t["deadline"] = d
        graphs.append({"name": f"G{gi}", "tasks": tasks, "edges": edges})
    return {
        "backend": backend,
        "now": now,
        "pools": pools,
        "graphs": graphs,
        "flags": flags,
        "uuid_seed": rng.randint(0, 10**9),
    }


def corpus(kind: str) -> list[dict]:
    """Hand-written cases: minimal inputs of known quirks, always run first (both back-ends)."""

    def task(name, state, strats, deadline, release=0, prev=None, ts=0):
        t = {"name": name, "ts": ts, "state": state, "strats": strats, "deadline": deadline, "release": release}
        if prev:
            t["prev"] = prev
        return t

    def st(rt, cpu=1):
        return {"batch": 1, "runtime": rt, "req": [["CPU", cpu]]}

    one_pool = lambda cpu: [{"name": "P0", "workers": [{"name": "W0", "res": [["CPU", cpu]]}]}]
    flags = {"enforce_deadlines": True, "retract": False, "release_taskgraphs": False, "lookahead": 0, "disc": 1, "plan_ahead": -1}
    out = []
    for backend in ("gurobi", "cplex"):
        # A long, B and C short and sequential on 2 CPUs: all three fit (per-slot capacity)
        out.append(
            {
                "backend": backend,
                "now": 0,
                "pools": one_pool(2),
                "graphs": [
                    {"name": "G0", "tasks": [task("A", "RELEASED", [st(10)], 11)], "edges": []},
                    {"name": "G1", "tasks": [task("B", "RELEASED", [st(2)], 11)], "edges": []},
                    {"name": "G2", "tasks": [task("C", "RELEASED", [st(2)], 11)], "edges": []},
                ],
                "flags": dict(flags),
                "uuid_seed": 1,
            }
        )
        # one hopeless task next to a feasible one; discretisation 2
        out.append(
            {
                "backend": backend,
                "now": 5,
                "pools": one_pool(2),
                "graphs": [
                    {"name": "G0", "tasks": [task("A", "RELEASED", [st(3)], 12, release=5)], "edges": []},
                    {"name": "G1", "tasks": [task("B", "RELEASED", [st(2)], 6, release=5)], "edges": []},
                ],
                "flags": dict(flags, disc=2),
                "uuid_seed": 2,
            }
        )
        # chain with a RUNNING parent and lookahead
        out.append(
            {
                "backend": backend,
                "now": 3,
                "pools": one_pool(2),
                "graphs": [
                    {
                        "name": "G0",
                        "tasks": [
                            task("A", "RUNNING", [st(4)], 12, release=1, prev={"w": 0, "s": 0, "time": 2, "sched_at": 1, "remaining": 3}),
                            task("B", "VIRTUAL", [st(2), st(3, 2)], 12, release=None),
                            task("C", "VIRTUAL", [st(2)], 12, release=None),
                        ],
                        "edges": [[0, 1], [1, 2]],
                    }
                ],
                "flags": dict(flags, release_taskgraphs=(backend == "gurobi"), lookahead=10),
                "uuid_seed": 3,
            }
        )
        # C14-TETRI-3: a SCHEDULED task must be re-placed on the shifted grid (disc 3, now 5) and
        # collides with the RUNNING task: infeasible model, the offered T is returned unplaced
        out.append(
            {
                "backend": backend,
                "now": 5,
                "pools": one_pool(3),
                "graphs": [
                    {"name": "G0", "tasks": [task("T", "RELEASED", [st(2)], 10, release=5)], "edges": []},
                    {"name": "G1", "tasks": [task("S", "SCHEDULED", [st(3, 2)], 10, release=3, prev={"w": 0, "s": 0, "time": 7, "sched_at": 4})], "edges": []},
                    {"name": "G2", "tasks": [task("R", "RUNNING", [st(2, 2)], 9, release=5, prev={"w": 0, "s": 0, "time": 5, "sched_at": 5, "remaining": 2})], "edges": []},
                ],
                "flags": dict(flags, disc=3, plan_ahead=6),
                "uuid_seed": 4,
            }
        )
        # C14-TETRI-2: RUNNING R (runtime 3, remaining 1) is booked until 5; T (deadline 4) would fit at 3
        out.append(
            {
                "backend": backend,
                "now": 2,
                "pools": one_pool(1),
                "graphs": [
                    {"name": "G0", "tasks": [task("T", "RELEASED", [st(1)], 4, release=2)], "edges": []},
                    {"name": "G1", "tasks": [task("R", "RUNNING", [st(3)], 9, release=0, prev={"w": 0, "s": 0, "time": 0, "sched_at": 0, "remaining": 1})], "edges": []},
                ],
                "flags": dict(flags, plan_ahead=2),
                "uuid_seed": 5,
            }
        )
        # late tasks without enforcement (seeded change C10-7): two 1-CPU tasks of runtime 9 whose
        # deadline 6 has no chance, one 1-CPU worker, default plan_ahead: the horizon now + 6 is shorter
        # than a runtime; a RUNNING task on another pool contributes the only other deadline (5)
        out.append(
            {
                "backend": backend,
                "now": 2,
                "pools": [
                    {"name": "Cpu", "workers": [{"name": "CpuW", "res": [["CPU", 1]]}]},
                    {"name": "Gpu", "workers": [{"name": "GpuW", "res": [["GPU", 1]]}]},
                ],
                "graphs": [
                    {
                        "name": "G",
                        "tasks": [
                            task("Running", "RUNNING", [{"batch": 1, "runtime": 3, "req": [["GPU", 1]]}], 5, release=0, prev={"w": 1, "s": 0, "time": 0, "sched_at": 0, "remaining": 1}),
                            task("Late1", "RELEASED", [st(9)], 6, release=1),
                            task("Late2", "RELEASED", [st(9)], 6, release=2),
                        ],
                        "edges": [],
                    }
                ],
                "flags": dict(flags, enforce_deadlines=False),
                "uuid_seed": 8,
            }
        )
    # C14-TETRI-3 (Gurobi, parent count): join J SCHEDULED, parent A COMPLETED, parent B RUNNING
    out.append(
        {
            "backend": "gurobi",
            "now": 4,
            "pools": one_pool(3),
            "graphs": [
                {
                    "name": "G0",
                    "tasks": [
                        task("A", "COMPLETED", [st(2)], 12, release=0, prev={"w": 0, "s": 0, "time": 0, "sched_at": 0, "finish": 2}),
                        task("B", "RUNNING", [st(4)], 12, release=0, prev={"w": 0, "s": 0, "time": 2, "sched_at": 0, "remaining": 2}),
                        task("J", "SCHEDULED", [st(2)], 12, release=0, prev={"w": 0, "s": 0, "time": 7, "sched_at": 0}),
                    ],
                    "edges": [[0, 2], [1, 2]],
                },
                {"name": "G1", "tasks": [task("X", "RELEASED", [st(2)], 12, release=4)], "edges": []},
            ],
            "flags": dict(flags, plan_ahead=8),
            "uuid_seed": 6,
        }
    )
    # C14-TETRI-4 (Gurobi, parent count): join J offered by lookahead, parent A COMPLETED, parent B offered
    out.append(
        {
            "backend": "gurobi",
            "now": 2,
            "pools": one_pool(2),
            "graphs": [
                {
                    "name": "G0",
                    "tasks": [
                        task("A", "COMPLETED", [st(2)], 12, release=0, prev={"w": 0, "s": 0, "time": 0, "sched_at": 0, "finish": 2}),
                        task("B", "RELEASED", [st(2)], 12, release=2),
                        task("J", "VIRTUAL", [st(2)], 12, release=None),
                    ],
                    "edges": [[0, 2], [1, 2]],
                }
            ],
            "flags": dict(flags, lookahead=10, plan_ahead=9),
            "uuid_seed": 7,
        }
    )
    return out


# --------------------------------------------------------------------------
# One case
# --------------------------------------------------------------------------


def run_case(spec: dict):
    """Real side of one case. Returns (world, rec, driver_case or None)."""
    w = build_world(spec)
    rec = real_schedule(w)
    case = None
    rec["solved"] = solved(rec) if rec["err"] is None else False
    if rec.get("offered") is not None:
        if spec.get("batching"):
            from harness.planners import _tetri_batch

            rec["inst"] = _tetri_batch.extract_inst(w, rec)
        else:
            rec["inst"] = extract_inst(w, rec)
        if rec["inst"] is not None:
            case = {"suite": SUITE, "inst": rec["inst"], "sigma": None}
    return w, rec, case


def canonical_case(spec: dict) -> dict:
    c = {k: spec[k] for k in ("backend", "now", "pools", "graphs", "flags")}
    c.update({k: spec[k] for k in ("scale", "warmup") if spec.get(k)})  # flavours (harness/planners/_worlds.py)
    return c


def second_pass(recs_cases, replies):
    """The solver point can only be labelled once the generator's labels are known (`scaled`,
    `den`): second driver pass with sigma for the solved cases."""
    cases2, idx2 = [], []
    for i, ((w, rec, case), reply) in enumerate(zip(recs_cases, replies)):
        if reply.get("nomodel") or "protocol_error" in reply or rec["err"] is not None or not rec["solved"]:
            continue
        try:
            real = (canon_gurobi if rec["backend"] == "gurobi" else canon_cplex)(rec, reply["den"])
        except NotRational as e:
            rec["canon_err"] = str(e)
            continue
        rec["canon"] = real
        sig, bad = solver_sigma(rec, real["labels"], set(reply.get("scaled", [])), reply["den"])
        rec["sigma_bad"] = bad
        c2 = dict(case)
        c2["sigma"] = sig
        c2["model"] = False
        cases2.append(c2)
        idx2.append(i)
    replies2 = common.run_driver(cases2) if cases2 else []
    return dict(zip(idx2, replies2))


def compare_case(w, rec, reply, reply2) -> list[str]:
    """Correspondence: captured model vs gen, placements vs decode, solver point vs sat."""
    dis = []
    if "protocol_error" in reply:
        return [f"driver protocol error: {reply['protocol_error']}"]
    if rec["err"] is not None:
        return [f"schedule() raised {rec['err']} (the model predicts no exception)"]
    real = real_decisions(w, rec)
    if not reply.get("wf", False):
        dis.append("extracted instance violates the theorems' well-formedness hypotheses (Inst.wf = false)")
    if not reply.get("acyclic", False):
        dis.append("extracted instance violates the completeness hypothesis (wfAcyclic = false)")
    if reply.get("nomodel"):
        if rec["n_models"] != 0:
            dis.append("model predicts that no solver model is built, the real call built one")
        if reply.get("decode_nomodel") != real:
            dis.append(f"decisions without model differ: real={real} model={reply.get('decode_nomodel')}")
        return dis
    if rec["model"] is None:
        return dis + ["model predicts a solver model, the real call built none"]
    if "canon_err" in rec:
        return dis + [f"captured coefficient is not a multiple of 1/den: {rec['canon_err']}"]
    if "canon" not in rec:
        try:
            rec["canon"] = (canon_gurobi if rec["backend"] == "gurobi" else canon_cplex)(rec, reply["den"])
        except NotRational as e:
            return dis + [f"captured coefficient is not a multiple of 1/den: {e}"]
    dis += diff_models(rec["canon"], canon_lean(reply))
    if rec["solved"]:
        if reply2 is None:
            return dis + ["no driver reply for the solver point"]
        if "protocol_error" in reply2:
            return dis + [f"driver protocol error: {reply2['protocol_error']}"]
        if rec.get("sigma_bad"):
            dis.append(f"solver returned non-integral values {rec['sigma_bad'][:3]}")
        if not reply2.get("sat", False):
            dis.append(f"solver point does not satisfy gen inst: {reply2.get('violated')[:4]}")
        if reply2.get("decode") != real:
            dis.append(f"decode differs: real={real} model={reply2.get('decode')}")
        ov = objective_value(rec) * reply["den"]
        if abs(ov - reply2.get("objval", 0)) > 1e-5 * max(1.0, abs(ov)):
            dis.append(f"objective value real={ov}/{reply['den']} model={reply2.get('objval')}/{reply['den']}")
        if not reply2.get("plan_valid", False):
            dis.append("decoded plan is not a ValidPlan of the independent specification (model side)")
    else:
        if reply.get("decode_fail") != real:
            dis.append(f"failure decisions differ: real={real} model={reply.get('decode_fail')}")
    return dis


# --------------------------------------------------------------------------
# Model-independent oracles (real objects only)
# --------------------------------------------------------------------------


def _req(strategy) -> dict:
    out = {}
    for r, q in strategy.resources.resources:
        out[r.name] = out.get(r.name, 0) + q
    return out


def _caps(w: World) -> dict:
    cap = {}
    for wk, _ in w.workers:
        tot = {}
        for r, q in wk.resources.resources:
            tot[r.name] = tot.get(r.name, 0) + q
        cap[wk.id] = tot
    return cap


def _decided(rec):
    return {p.task.unique_name: p for p in rec["placements"]}


def _intervals(w: World, rec: dict, booking: str = "true"):
    """Planned occupancy (task, worker id, start, end, strategy), half-open [start, end), after this
    decision: tasks placed by the decision, RUNNING tasks (`true`: until now + remaining;
    `planner`: for the full runtime of their strategy, which is what the formulations book) and
    SCHEDULED tasks the decision did not re-decide."""
    decided = _decided(rec)
    out = []
    for _, task in w.task_list:
        st = task.state.name
        if task.unique_name in decided:
            p = decided[task.unique_name]
            if p.is_placed():
                out.append((task, p.worker_id, _t(p.placement_time), _t(p.placement_time) + _t(p.execution_strategy.runtime), p.execution_strategy))
        elif st == "RUNNING":
            cp = task.current_placement
            dur = _t(task.remaining_time) if booking == "true" else _t(cp.execution_strategy.runtime)
            out.append((task, cp.worker_id, w.now, w.now + dur, cp.execution_strategy))
        elif st == "SCHEDULED":
            cp = task.current_placement
            out.append((task, cp.worker_id, _t(cp.placement_time), _t(cp.placement_time) + _t(cp.execution_strategy.runtime), cp.execution_strategy))
    return out


def reachable_state(w: World, rec: dict) -> bool:
    """Generator invariant that needs the real frontier to evaluate: in retracting mode the
    simulator re-offers every SCHEDULED task unless the generator drew a planned-ahead child whose
    parent estimate pushes it out of the lookahead — a state no run reaches with fixed flags and
    exact runtimes.  Such cases still take part in the model comparison, not in the oracles."""
    if not w.spec["flags"]["retract"]:
        return True
    offered = {t.unique_name for t in rec.get("offered", [])}
    return all(t.unique_name in offered for _, t in w.task_list if t.state.name == "SCHEDULED")


def oracle_c10(w: World, rec: dict) -> list[str]:
    """Complete, feasible, side-effect-free decision (planner clauses)."""
    bad = []
    if rec["err"]:
        return [f"schedule() raised {rec['err'].split(':')[0]}"]
    pls = list(rec["placements"])
    names = [p.task.unique_name for p in pls]
    if len(set(names)) != len(names):
        bad.append("two decisions for one task")
    offered = {t.unique_name for t in rec.get("offered", [])}
    for p in pls:
        t = p.task
        st = t.state.name
        if st in ("RUNNING", "COMPLETED"):
            bad.append(f"decision for a {st} task")
        if t.unique_name not in offered and st != "SCHEDULED":
            bad.append("decision for a task neither offered nor previously scheduled")
    for u in offered:
        if w.tasks[u].state.name != "SCHEDULED" and u not in names:
            bad.append("offered task without decision")
    pool_ids = {pool.id: pool for pool in w.pools}
    for p in pls:
        if not p.is_placed():
            continue
        t = p.task
        pool = pool_ids.get(p.worker_pool_id)
        if pool is None:
            bad.append("unknown pool")
            continue
        if p.worker_id is not None and p.worker_id not in {wk.id for wk in pool.workers}:
            bad.append("worker not in the named pool")
        if p.execution_strategy is not None and not any(s is p.execution_strategy for s in t.available_execution_strategies):
            bad.append("strategy does not belong to the task")
        if _t(p.placement_time) < w.now:
            bad.append("placement time before now")
        if not t.release_time.is_invalid() and t.state.name != "VIRTUAL" and _t(p.placement_time) < _t(t.release_time):
            bad.append("placement time before the known release")
    # joint feasibility at every planned instant (half-open occupancy: the simulator's own)
    iv = _intervals(w, rec)
    cap = _caps(w)
    for _, _wid, s0, _e0, _ in iv:
        for wk_id, tot in cap.items():
            use = {}
            for _t2, wid2, s, e, strat in iv:
                if wid2 == wk_id and s <= s0 < e:
                    for rn, q in _req(strat).items():
                        use[rn] = use.get(rn, 0) + q
            for rn, q in use.items():
                if q > tot.get(rn, 0):
                    bad.append("capacity exceeded at a planned instant")
    if not rec["pure"]:
        bad.append("live cluster or task state changed by schedule()")
    return sorted(set(bad))


def oracle_c11(w: World, rec: dict) -> list[str]:
    """TetriSched-Gurobi only: placed child => parents of the same call placed; start not before
    parent start + its (chosen <= slowest) runtime; running / scheduled parents: expected finish."""
    bad = []
    if rec["err"] or w.backend != "gurobi":
        return []
    decided = _decided(rec)
    for p in rec["placements"]:
        if not p.is_placed():
            continue
        c = p.task
        g = w.workload.get_task_graph(c.task_graph)
        for par in g.get_parents(c):
            st = par.state.name
            if par.unique_name in decided:
                pp = decided[par.unique_name]
                if not pp.is_placed():
                    bad.append("child placed while a parent decided in the same call is unplaced")
                elif _t(p.placement_time) < _t(pp.placement_time) + _t(pp.execution_strategy.runtime):
                    bad.append("child starts before parent start + chosen runtime")
            elif st == "RUNNING":
                if _t(p.placement_time) < w.now + _t(par.remaining_time):
                    bad.append("child starts before the expected finish of a RUNNING parent")
            elif st == "SCHEDULED":
                cp = par.current_placement
                if _t(p.placement_time) < _t(cp.placement_time) + _t(par.remaining_time):
                    bad.append("child starts before the expected finish of a SCHEDULED parent")
    return sorted(set(bad))


def oracle_c12(w: World, rec: dict) -> list[str]:
    bad = []
    R = _repo()
    f = w.spec["flags"]
    if rec["err"] or not f["enforce_deadlines"]:
        return []
    CANCEL = R["Placement"].PlacementType.CANCEL_TASK
    for p in rec["placements"]:
        t = p.task
        fastest = min(_t(s.runtime) for s in t.available_execution_strategies)
        hopeless = _t(t.deadline) < w.now + fastest
        cancel = p.placement_type == CANCEL
        if not cancel and p.is_placed():
            if _t(p.placement_time) + _t(p.execution_strategy.runtime) > _t(t.deadline):
                bad.append("placed task would finish after its deadline")
            if hopeless:
                bad.append("hopeless task placed")
        if w.backend == "cplex":
            if hopeless and not cancel:
                bad.append("hopeless task not answered with a cancellation")
            if cancel and not hopeless:
                bad.append("task cancelled although its fastest strategy meets the deadline from now")
        elif cancel:
            bad.append("cancellation returned by the Gurobi formulation")
    return sorted(set(bad))


# ---- C14: can one more offered task be added? --------------------------------


def _grid(w: World, rec: dict) -> list[int]:
    """The allowed start slots of this invocation: `range(now, now + plan_ahead + 1, disc)` with
    `plan_ahead` = the flag, or the greatest deadline among the tasks handed to `_add_variables`."""
    f = w.spec["flags"]
    pa = f["plan_ahead"]
    if pa == -1:
        pa = max([-1] + [_t(t.deadline) for t in rec.get("tasks", [])])
    return list(range(w.now, w.now + pa + 1, f["disc"]))


def addable_cells(w: World, rec: dict, booking: str = "true", count_all_parents: bool = False):
    """Every (task, worker index, slot, strategy index) by which the returned plan could be
    extended without breaking capacity (at every instant, half-open occupancy), release, deadline
    or precedence limits.  Precedence limits are the formulation's own: a child may start at
    `parent start + slowest runtime of the parent + 1` at the earliest (`now + remaining + 1` after a
    RUNNING parent), and only when every parent is COMPLETED, RUNNING, still SCHEDULED or placed by
    this decision.  `count_all_parents` additionally applies the as-coded rule that the parents
    with variables must be *all* graph parents."""
    f = w.spec["flags"]
    if rec["err"] or rec["placements"] is None:
        return []
    decided = _decided(rec)
    iv = _intervals(w, rec, booking)
    cap = _caps(w)
    workers = worker_order(w, rec)
    grid = _grid(w, rec)
    with_vars = {t.unique_name for t in rec.get("tasks", [])}
    out = []
    for t in rec.get("offered", []):
        p = decided.get(t.unique_name)
        if p is None or p.is_placed() or t.state.name in ("RUNNING", "COMPLETED"):
            continue
        if t.unique_name not in with_vars:
            continue  # cancelled before the model was built: hopeless by the admission rule
        g = w.workload.get_task_graph(t.task_graph)
        lb = None
        ok = True
        parents = list(dict.fromkeys(g.get_parents(t)))
        nvar = 0
        for par in parents:
            st = par.state.name
            slow = max(_t(s.runtime) for s in par.available_execution_strategies)
            if par.unique_name in decided:
                nvar += 1
                pp = decided[par.unique_name]
                if not pp.is_placed():
                    ok = False
                    break
                b = _t(pp.placement_time) + slow + 1
            elif st == "RUNNING":
                nvar += 1
                b = w.now + _t(par.remaining_time) + 1
            elif st == "SCHEDULED":
                nvar += 1 if par.unique_name in with_vars else 0
                b = _t(par.current_placement.placement_time) + slow + 1
            elif st == "COMPLETED":
                continue
            else:
                ok = False
                break
            lb = b if lb is None else max(lb, b)
        if w.backend == "cplex":
            lb = None if not ok else lb  # (the CPLEX formulation itself knows no precedence)
        if not ok:
            continue
        if count_all_parents and w.backend == "gurobi" and nvar > 0 and nvar != len(parents):
            continue
        for wi, wk in enumerate(workers):
            tot = cap[wk.id]
            for si, s in enumerate(t.available_execution_strategies):
                req = _req(s)
                if any(q > tot.get(rn, 0) for rn, q in req.items()):
                    continue
                rt = _t(s.runtime)
                for slot in grid:
                    if slot < _t(t.release_time):
                        continue
                    if f["enforce_deadlines"] and slot + rt > _t(t.deadline):
                        continue
                    if lb is not None and slot < lb and w.backend == "gurobi":
                        continue
                    fits = True
                    # the load on [slot, slot + rt) changes only where an interval starts: checking `slot` and every
                    # interval start inside the window is the check at every instant (1000x-scale worlds)
                    for tau in sorted({slot} | {s0 for _t2, wid2, s0, _e0, _s in iv if wid2 == wk.id and slot < s0 < slot + rt}):
                        if tau >= slot + rt:
                            break
                        use = dict(req)
                        for _t2, wid2, s0, e0, strat in iv:
                            if wid2 == wk.id and s0 <= tau < e0:
                                for rn, q in _req(strat).items():
                                    use[rn] = use.get(rn, 0) + q
                        if any(q > tot.get(rn, 0) for rn, q in use.items()):
                            fits = False
                            break
                    if fits:
                        out.append((t.unique_name, wi, slot, si))
    return out


def must_tasks_placeable(w: World, rec: dict) -> bool:
    """Can the tasks the formulation insists on placing (SCHEDULED, non-retracting mode) all be
    placed on this invocation's grid within the formulation's own limits (RUNNING tasks booked
    for their full runtime, deadlines, `parent slot + slowest + 1`, as many parents with variables
    as graph parents)?  Exhaustive search over those tasks only."""
    f = w.spec["flags"]
    if f["retract"]:
        return True
    tasks = [t for t in rec.get("tasks", []) if t.state.name == "SCHEDULED"]
    if not tasks:
        return True
    with_vars = {t.unique_name for t in rec.get("tasks", [])}
    workers = worker_order(w, rec)
    cap = _caps(w)
    grid = _grid(w, rec)
    base = []
    for _, task in w.task_list:
        if task.state.name == "RUNNING":
            cp = task.current_placement
            base.append((cp.worker_id, w.now, w.now + _t(cp.execution_strategy.runtime), _req(cp.execution_strategy)))
    cands = []
    for t in tasks:
        g = w.workload.get_task_graph(t.task_graph)
        parents = list(dict.fromkeys(g.get_parents(t)))
        if w.backend == "gurobi":
            pv = [p for p in parents if p.unique_name in with_vars]
            if pv and len(pv) != len(parents):
                return False  # the all-parents-placed rows can never hold
        c = []
        for wk in workers:
            for s in t.available_execution_strategies:
                req = _req(s)
                if any(q > cap[wk.id].get(rn, 0) for rn, q in req.items()):
                    continue
                for slot in grid:
                    if slot < _t(t.release_time):
                        continue
                    if f["enforce_deadlines"] and slot + _t(s.runtime) > _t(t.deadline):
                        continue
                    c.append((wk.id, slot, slot + _t(s.runtime), req))
        cands.append((t, parents, c))
    chosen = {}

    def ok_prec(t, parents, slot):
        if w.backend != "gurobi":
            return True
        for par in parents:
            slow = max(_t(s.runtime) for s in par.available_execution_strategies)
            if par.state.name == "RUNNING":
                if slot < w.now + _t(par.remaining_time) + 1:
                    return False
            elif par.unique_name in chosen:
                if slot < chosen[par.unique_name][1] + slow + 1:
                    return False
        return True

    def fits(iv):
        for (wid, s0, _e0, _r) in iv:
            use = {}
            for (wid2, s, e, req) in iv:
                if wid2 == wid and s <= s0 < e:
                    for rn, q in req.items():
                        use[rn] = use.get(rn, 0) + q
            if any(q > cap[wid].get(rn, 0) for rn, q in use.items()):
                return False
        return True

    order = sorted(range(len(cands)), key=lambda i: len([p for p in cands[i][1] if p.state.name == "SCHEDULED"]))

    def rec_(k, iv):
        if k == len(order):
            # children constraints between must tasks were checked when the later one was placed;
            # re-check all pairs for order independence
            for t, parents, _ in cands:
                if not ok_prec(t, parents, chosen[t.unique_name][1]):
                    return False
            return True
        t, parents, c = cands[order[k]]
        for cell in c:
            chosen[t.unique_name] = cell
            if fits(iv + [cell]) and rec_(k + 1, iv + [cell]):
                return True
            del chosen[t.unique_name]
        return False

    return rec_(0, base)


def c14_verdict(w: World, rec: dict):
    """(addable cells under the true limits, signature or None)."""
    f = w.spec["flags"]
    true_cells = addable_cells(w, rec, "true")
    if not true_cells:
        return [], None
    coded = addable_cells(w, rec, "planner", count_all_parents=True)
    tasks_true = {c[0] for c in true_cells}
    tasks_coded = {c[0] for c in coded}
    if not rec["solved"] and rec["model"] is not None:
        if not must_tasks_placeable(w, rec):
            why = (
                "a previously SCHEDULED task cannot be re-placed within the formulation's own limits "
                "(shifted grid, RUNNING tasks booked for their full runtime, parent count): the model is "
                "infeasible and every offered task is returned unplaced"
            )
        else:
            why = "the solver found no solution although the tasks that must be placed fit: not explained by any known defect class"
    elif tasks_coded:
        g = w.workload
        unrewarded = all(
            w.backend == "gurobi" and f["release_taskgraphs"] and not g.get_task_graph(w.tasks[u].task_graph).is_sink_task(w.tasks[u])
            for u in tasks_coded
        )
        if unrewarded:
            why = "with release_taskgraphs only sink tasks are rewarded, a task that is not a sink is left unplaced"
        else:
            why = "not explained by any known defect class"
    else:
        only_parents = {c[0] for c in addable_cells(w, rec, "planner", count_all_parents=False)}
        if tasks_true <= only_parents:
            why = "all-parents-placed row counts parents without variables, the child can never be placed"
        else:
            why = "a RUNNING task is booked for the full runtime of its strategy instead of its remaining time"
    return true_cells, f"tetri C14: an offered task could still be added to the returned plan: {why}"


# ---- C11: adversarial query on the captured real model (Gurobi) ---------------


def adversarial_precedence(w: World, rec: dict) -> list[str]:
    """Ask Gurobi for a feasible point of the CAPTURED REAL model in which a child is placed while
    a parent with variables is not, or whose decoded start (the slot of the chosen cell) lies
    before the parent's decoded start + chosen runtime / a RUNNING parent's expected finish."""
    R = _repo()
    GRB, gp = R["GRB"], R["gp"]
    m = rec["model"]
    if m is None or rec["backend"] != "gurobi":
        return []
    cn = name_canon(rec)
    tasks = rec["tasks"]
    by_task = {}
    for i, v in enumerate(m.getVars()):
        mm_ = _CELL.match(cn(v.VarName))
        if mm_:
            by_task.setdefault(mm_.group(1), []).append((i, int(mm_.group(3)), mm_.group(4)))
    found = []
    for c in tasks:
        if c.state.name == "RUNNING" or c.unique_name not in by_task:
            continue
        g = w.workload.get_task_graph(c.task_graph)
        cx = by_task[c.unique_name]
        for par in g.get_parents(c):
            if not any(par is t for t in tasks):
                continue
            mm = m.copy()
            mm.Params.LogToConsole = 0
            mm.Params.MIPGap = 0
            mm.Params.Threads = 1
            vs = mm.getVars()
            mm.addConstr(gp.quicksum(vs[i] for i, _, _ in cx) == 1)
            cstart = gp.quicksum(slot * vs[i] for i, slot, _ in cx)
            if par.state.name == "RUNNING":
                bound = w.now + _t(par.remaining_time)
                mm.setObjective(cstart, GRB.MINIMIZE)
                mm.optimize()
                if mm.Status == GRB.OPTIMAL and mm.ObjVal < bound - 1e-6:
                    found.append(f"feasible point: {c.unique_name} starts at {mm.ObjVal} before RUNNING parent finishes at {bound}")
                continue
            px = by_task.get(par.unique_name, [])
            mm.setObjective(gp.quicksum(vs[i] for i, _, _ in px), GRB.MINIMIZE)
            mm.optimize()
            if mm.Status == GRB.OPTIMAL and mm.ObjVal < 0.5:
                found.append(f"feasible point: {c.unique_name} placed while parent {par.unique_name} is unplaced")
                continue
            if mm.Status != GRB.OPTIMAL:
                continue  # the child can never be placed
            strats = list(par.available_execution_strategies)
            pfin = gp.quicksum((slot + _t(strats[int(si)].runtime)) * vs[i] for i, slot, si in px if si.isdigit())
            mm.setObjective(cstart - pfin, GRB.MINIMIZE)
            mm.optimize()
            if mm.Status == GRB.OPTIMAL and mm.ObjVal < -1e-6:
                found.append(f"feasible point: {c.unique_name} starts {-mm.ObjVal} before parent {par.unique_name} finishes")
    return found


# --------------------------------------------------------------------------
# The sub-suite
# --------------------------------------------------------------------------


def counts_for(prop: str, tier: str) -> int:
    quick = {"C10": 70, "C11": 60, "C12": 70, "C14": 90}
    thorough = {"C10": 700, "C11": 500, "C12": 600, "C14": 900}
    return (quick if tier == "quick" else thorough)[prop]


KIND = {"C10": "mix", "C11": "dag", "C12": "deadline", "C14": "c14"}


def gen_chain_b(rng, backend: str) -> dict:
    """Chain-B world (see `_worlds.gen_chain_b`): retracting mode, RUNNING X -> SCHEDULED B -> VIRTUAL C declared in
    a non-topological order, `runtime(B) <= lookahead < remaining(X)`: nothing of the chain is schedulable; in
    the control worlds (lookahead 30) everything is re-offered."""
    b = _worlds.gen_chain_b(rng, now_choices=(0, 2, 5), extra_graph=True)
    flags = {
        "enforce_deadlines": rng.random() < 0.8,
        "retract": True,
        "release_taskgraphs": backend == "gurobi" and rng.random() < 0.15,
        "lookahead": b["lookahead"],
        "disc": rng.choice([1, 1, 2]),
        "plan_ahead": -1,
    }
    return {"backend": backend, "now": b["now"], "pools": b["pools"], "graphs": b["graphs"], "flags": flags,
            "uuid_seed": rng.randint(0, 10**9), "flavour": "chain_b" + ("_control" if b["control"] else "")}


def mixed_corpus() -> list[dict]:
    """Hand-written mixed-unit worlds (1000x scale, Gurobi formulation): the parent's only compatible strategy is
    the slow one, written in ms next to a fast one in us (raw integers 5 < 2000); the child is offered by
    lookahead and has to wait for `parent start + slowest runtime + 1`."""
    def st(rt, cpu, ms=False):
        d = {"batch": 1, "runtime": rt, "req": [["CPU", cpu]]}
        if ms:
            d["rt_ms"] = True
        return d

    flags = {"enforce_deadlines": True, "retract": False, "release_taskgraphs": False, "lookahead": 20000, "disc": 1000, "plan_ahead": 12000}
    return [
        {
            "backend": "gurobi",
            "now": 3000,
            "scale": 1000,
            "pools": [{"name": "P0", "workers": [{"name": "W0", "res": [["CPU", 2]]}]}],
            "graphs": [
                {
                    "name": "G0",
                    "tasks": [
                        {"name": "A", "ts": 0, "state": "RELEASED", "strats": [st(2000, 3), st(5000, 1, ms=True)], "deadline": 16000, "dl_ms": True, "release": 2000, "rel_ms": True},
                        {"name": "B", "ts": 0, "state": "VIRTUAL", "strats": [st(3000, 1)], "deadline": 16000, "release": None},
                    ],
                    "edges": [[0, 1]],
                    "decl": [1, 0],
                }
            ],
            "flags": dict(flags),
            "uuid_seed": 21,
        }
    ]


def warm_corpus() -> list[dict]:
    """Hand-written warm-scheduler worlds (both back-ends, derived plan-ahead): the scheduler object was invoked at
    t=0 on an unrelated world whose greatest deadline is 4; the judged call at t=1 has to plan B and C (runtime 5,
    deadline 12, one CPU) one after the other, which needs the slots up to 6 of ITS horizon 1..13."""
    out = []
    for backend in ("gurobi", "cplex"):
        out.append(
            {
                "backend": backend,
                "now": 1,
                "pools": [{"name": "P0", "workers": [{"name": "W0", "res": [["CPU", 1]]}]}],
                "graphs": [
                    {"name": f"G{i}", "edges": [], "tasks": [
                        {"name": n, "ts": 0, "state": "RELEASED", "strats": [{"batch": 1, "runtime": 5, "req": [["CPU", 1]]}], "deadline": 12, "release": 1}]}
                    for i, n in enumerate(("B", "C"))
                ],
                "flags": {"enforce_deadlines": True, "retract": False, "release_taskgraphs": False, "lookahead": 0, "disc": 1, "plan_ahead": -1},
                "uuid_seed": 31,
                "warmup": {"now": 0, "cpu": 1, "tasks": [{"runtime": 4, "deadline": 4}]},
            }
        )
    return out


P_DECL, P_MIXED, P_WARM = 0.4, 0.25, 0.3


def _count_flavours(chk, name, spec):
    if spec.get("scale"):
        chk.count(f"{name}:flavour=1000x-scale" + (",mixed-units-in-one-profile" if _worlds.has_mixed_profile(spec) else ""))
    if any(g.get("decl") for g in spec["graphs"]):
        chk.count(f"{name}:flavour=declaration-order" + ("" if all(_worlds.is_topological_decl(g) for g in spec["graphs"]) else ",non-topological"))
    if spec.get("flavour"):
        chk.count(f"{name}:flavour={spec['flavour']}")
    if spec.get("warmup"):
        chk.count(f"{name}:flavour=warm-scheduler")


def gen_specs(prop: str, rng, tier: str, widened=False) -> list[dict]:
    n = counts_for(prop, tier)
    if widened:
        n *= 2
    r = rng.sub(f"tetri/{prop}/{'w' if widened else 'n'}")
    fr = rng.sub(f"tetri/{prop}/{'w' if widened else 'n'}/flavours")  # own stream: the base worlds stay what they were
    specs = [s for s in corpus(KIND[prop]) if not (prop == "C11" and s["backend"] != "gurobi")]
    n_corpus = len(specs)
    kinds = [KIND[prop]] if not widened else ["mix", "dag", "deadline", "c14"]
    i = 0
    while len(specs) < n:
        backend = "gurobi" if prop == "C11" or i % 2 == 0 else "cplex"
        specs.append(gen_world(r, r.choice(kinds), backend))
        i += 1
    for spec in specs[n_corpus:]:
        # flavours (harness/planners/_worlds.py): non-topological declaration order; 1000x scale with mixed units
        if fr.random() < P_DECL:
            _worlds.shuffle_decl(spec, fr)
        if fr.random() < P_MIXED:
            _worlds.scale_mixed(spec, fr)
    wr = rng.sub(f"tetri/{prop}/{'w' if widened else 'n'}/warmup")
    for spec in specs[n_corpus:]:
        if wr.random() < P_WARM:
            _worlds.gen_warmup(spec, wr)
    specs[n_corpus:n_corpus] = mixed_corpus() + [s for s in warm_corpus() if not (prop == "C11" and s["backend"] != "gurobi")]
    if prop in ("C10", "C11"):
        # chain-B worlds in addition (10 %)
        for j in range(max(4, n // 10)):
            spec = gen_chain_b(fr, "gurobi" if prop == "C11" or j % 2 == 0 else "cplex")
            if fr.random() < 0.3:
                _worlds.scale_mixed(spec, fr)
            specs.append(spec)
    return specs


def oracle_for(prop, w, rec) -> list[str]:
    if prop == "C10":
        return oracle_c10(w, rec)
    if prop == "C11":
        return oracle_c11(w, rec)
    if prop == "C12":
        return oracle_c12(w, rec)
    return []


def _c14_bounded(spec) -> bool:
    n = sum(len(g["tasks"]) for g in spec["graphs"])
    nw = sum(len(p["workers"]) for p in spec["pools"])
    return n <= 5 and nw <= 2


def _quiet_schedule(spec):
    """docplex prints "Error: Adding trivially infeasible linear constraint" on stdout."""
    import contextlib
    import io

    buf = io.StringIO()
    with contextlib.redirect_stdout(buf):
        return run_case(spec)


def _run_oracles(prop, chk, spec, w, rec, reply, reply2, found_input=True):
    """Oracles of `prop` on the real output of one case."""
    f = spec["flags"]
    if prop in ("C10", "C11", "C12"):
        for b in oracle_for(prop, w, rec):
            chk.violation(f"tetri {prop}: {b}", {"planner": NAME, "prop": prop, "spec": spec, "what": b}, found_input=found_input)
    if prop == "C11" and rec["model"] is not None and rec["err"] is None:
        for b in adversarial_precedence(w, rec):
            chk.count("tetri:adversarial-hit")
            chk.violation(
                f"tetri C11: {b.split(':')[0]} of the captured model violates precedence",
                {"planner": NAME, "prop": prop, "spec": spec, "what": b, "adversarial": True},
                found_input=found_input,
            )
        chk.count("tetri:adversarial-queries")
    if prop == "C14" and rec["err"] is None and rec.get("offered"):
        if reply is not None and not reply.get("nomodel") and reply.get("bound") is not None and reply["bound"] >= 10 * reply["den"]:
            chk.count("tetri:objective-bound>=10 (gap could hide a task; verdict skipped)")
            return
        cells, sig = c14_verdict(w, rec)
        chk.count("tetri:maximality-checked")
        if sig is not None:
            chk.violation(sig, {"planner": NAME, "prop": prop, "spec": spec, "addable": cells[:6], "what": sig}, found_input=found_input)


def run(prop: str, chk, rng, tier: str) -> list[str]:
    prop = prop.upper()
    specs = gen_specs(prop, rng, tier)
    disagreements = []
    t0 = _time.time()
    rcs = []
    for spec in specs:
        if prop == "C14" and not _c14_bounded(spec):
            continue
        rcs.append((spec,) + _quiet_schedule(spec))
    triples = [(w, rec, case) for _, w, rec, case in rcs if case is not None]
    replies = common.run_driver([c for _, _, c in triples]) if triples else []
    rep2 = second_pass(triples, replies)
    k = 0
    for spec, w, rec, case in rcs:
        reply = reply2 = None
        if case is not None:
            reply, reply2 = replies[k], rep2.get(k)
            k += 1
        f = spec["flags"]
        be = rec["backend"]
        n_off = len(rec.get("offered") or [])
        placed = 0 if rec["placements"] is None else sum(1 for p in rec["placements"] if p.is_placed())
        chk.case({"planner": NAME, "spec": canonical_case(spec)}, nontrivial=(rec["err"] is None and n_off > 0 and rec["model"] is not None))
        chk.count(f"tetri:{be}")
        chk.count(f"tetri:offered={min(n_off, 5)}")
        chk.count(f"tetri:placed={min(placed, 5)}")
        chk.count(f"tetri:disc={f['disc']}")
        chk.count(f"tetri:retract={f['retract']},release_tg={f['release_taskgraphs']}")
        _count_flavours(chk, "tetri", spec)
        chk.count(f"tetri:{be}:" + ("raised" if rec["err"] else "no-model" if rec["model"] is None else "solved" if rec["solved"] else "no-solution"))
        if reply is not None:
            chk.traces_validated += 1
            for x in compare_case(w, rec, reply, reply2):
                disagreements.append(f"[tetri case {be}] {x} :: spec={json.dumps(canonical_case(spec))[:600]}")
            if prop == "C14" and reply2 is not None and "addable" in reply2 and rec["solved"]:
                mine = sorted([list(c) for c in addable_cells(w, rec, "planner", count_all_parents=True)])
                theirs = sorted(reply2["addable"])
                # the model also lists cells of previously SCHEDULED / unoffered tasks? no: only unplaced tasks with variables
                offered = {t.unique_name for t in rec["offered"]}
                theirs = [c for c in theirs if c[0] in offered]
                if mine != theirs:
                    disagreements.append(
                        f"[tetri case {be}] addable cells differ: oracle={mine[:4]} model={theirs[:4]} :: spec={json.dumps(canonical_case(spec))[:600]}"
                    )
        elif rec["err"] is None and rec.get("offered") is None:
            disagreements.append("[tetri] schedule() did not ask the workload for schedulable tasks")
        if not reachable_state(w, rec) and prop != "C11":
            chk.count("tetri:unreachable-retract-state (oracles skipped)")
            release_model(rec)
            continue
        # C11 is judged in every state: precedence between a placed child and its parents does not depend on
        # whether the SCHEDULED tasks the retracting frontier left out could have been left out in a run (a child
        # is only offered together with its SCHEDULED parents, so nothing here can fire on such a state alone)
        _run_oracles(prop, chk, spec, w, rec, reply, reply2)
        release_model(rec)
    chk.extra.setdefault("planner_wall_s", {})[f"tetri/{prop}"] = round(_time.time() - t0, 1)
    # TetriSched-CPLEX with batching=True (BatchTask glue): own generator, model (`genB`) and oracles
    from harness.planners import _tetri_batch

    disagreements += _tetri_batch.run(prop, chk, rng, tier)
    return disagreements


def search(prop: str, chk, rng, tier: str) -> None:
    """Failing-input search on the real code only (no Lean): widened generator + oracles."""
    prop = prop.upper()
    for spec in gen_specs(prop, rng, tier, widened=True):
        if prop == "C14" and not _c14_bounded(spec):
            continue
        try:
            w, rec, case = _quiet_schedule(spec)
        except Exception:
            continue
        try:
            if reachable_state(w, rec) or prop == "C11":
                _run_oracles(prop, chk, spec, w, rec, None, None, found_input=True)
        finally:
            release_model(rec)
    from harness.planners import _tetri_batch

    _tetri_batch.search(prop, chk, rng, tier)


def replay(rp: dict) -> int:
    """Re-run one replay against the real code alone. 1 = the failure reproduces."""
    spec, prop = rp["spec"], rp["prop"]
    if spec.get("batching"):
        from harness.planners import _tetri_batch

        return _tetri_batch.replay(rp)
    w, rec, case = _quiet_schedule(spec)
    try:
        if prop in ("C10", "C11", "C12"):
            bad = oracle_for(prop, w, rec)
            if prop == "C11" and rp.get("adversarial"):
                bad += adversarial_precedence(w, rec)
            for b in bad:
                print(f"reproduced: tetri {prop}: {b}")
            return 1 if bad else 0
        if prop == "C14":
            cells, sig = c14_verdict(w, rec)
            print(f"tetri C14: decisions={real_decisions(w, rec)} addable={cells[:6]} {sig or ''}")
            return 1 if sig is not None else 0
        return 0
    finally:
        release_model(rec)
