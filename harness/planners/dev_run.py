"""Stand-alone runner for one planner plugin (development only, writes no evidence).

usage: /venv/bin/python -m harness.planners.dev_run <planner> <prop> [--tier quick|thorough] [--no-lean] [--search]
"""
import argparse
import sys as _sys
_sys.dont_write_bytecode = True
import importlib
import os
import sys
import time

from harness import common


def main():
    ap = argparse.ArgumentParser()
    ap.add_argument("planner")
    ap.add_argument("prop")
    ap.add_argument("--tier", default="quick", choices=["quick", "thorough"])
    ap.add_argument("--no-lean", action="store_true", help="skip lake build / audit")
    ap.add_argument("--search", action="store_true", help="also run the failing-input search")
    a = ap.parse_args()
    prop = a.prop.upper()
    mod = importlib.import_module(f"harness.planners.{a.planner}")
    chk = common.Check(prop, a.tier, "dev-run")
    broken = []
    have_registry = any((common.LEAN / "registry").glob(f"{prop}.json")) or any((common.LEAN / "registry").glob(f"{prop}_*.json"))
    if not a.no_lean:
        if have_registry:
            broken = chk.lean_obligations()
        else:
            ok, log = common.lake_build()
            if not ok:
                broken = ["lake-build-failed"]
                print(log[-3000:])
    t0 = time.time()
    rng = common.Rng(chk.seed, prop.lower())
    dis = mod.run(prop, chk, rng, a.tier)
    if a.search or broken or dis:
        mod.search(prop, chk, rng, a.tier)
    dt = time.time() - t0
    print(f"--- {a.planner} {prop} tier={a.tier} seed={chk.seed}: {chk.evaluations} cases, "
          f"{len(chk.nontrivial)} distinct non-trivial, {dt:.1f}s")
    if chk.lean:
        print(f"lean: {chk.lean['discharged']}/{chk.lean['obligations']} obligations; failed={chk.lean['failed']}")
    print("broken obligations:", broken)
    print(f"correspondence disagreements: {len(dis)}")
    for d in dis[:8]:
        print("  ", d[:1500])
    print("distribution:", dict(sorted(chk.dist.items())))
    print("known findings hit:", chk.known_hits)
    print(f"violations: {len(chk.violations)}")
    for v in chk.violations[:8]:
        print("  ", v)
    sys.exit(1 if (chk.violations or dis or broken) else 0)


if __name__ == "__main__":
    main()
