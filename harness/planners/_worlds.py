"""World flavours shared by the per-invocation planner plugins (ilp, tetri, z3p).

A *world spec* (see `gen_world` of each plugin) is plain JSON.  This module adds three flavours on top of
the plugins' own generators; all of them are expressed in the spec, so a replay file reproduces them:

* **mixed units** (`scale_mixed`): the same world on a 1000x time scale (now, releases, deadlines,
  runtimes, remaining times, previous placement / scheduling / finish times, lookahead, plan-ahead, time
  discretisation all x1000) in which SOME runtimes / deadlines / release times are constructed as
  `EventTime(x // 1000, MS)` (`rt_ms` on a strategy, `dl_ms` / `rel_ms` on a task) and the others as
  `EventTime(x, US)`: one profile then mixes units (5 ms next to 2000 us).  The Lean instance is read back
  from the real objects in microseconds; the models are unit-free.
* **declaration order** (`shuffle_decl`): `g["decl"]` is the order of the keys of the children mapping the
  real `TaskGraph` is built from (node INSERTION order, not topological), `g["edges"]` is shuffled as well
  (order of the children of a node / of the parents of a node).  Task indices, states and everything else
  keep referring to the (topological) index order of `g["tasks"]`.
* **chain-B worlds** (`gen_chain_b`): retracting mode, a chain RUNNING X -> SCHEDULED B -> VIRTUAL C (-> D)
  declared with the edge B->C before the edge X->B, and a lookahead with
  `slowest runtime of B <= lookahead < remaining time of X`: the breadth-first propagation of estimated
  completion times in `TaskGraph.get_schedulable_tasks` has to expand B twice (once from its own estimate,
  once after X raised it); nothing of the chain is schedulable.  A share of control worlds has the lookahead
  beyond the whole chain (everything is re-offered).
* **warm scheduler** (`gen_warmup` / `run_warmup`): before the judged invocation the SAME scheduler object is
  invoked once on a small independent warm-up world (`spec["warmup"]`: its own one-worker cluster and one or two
  released short-deadline tasks at an earlier time; no Task / Worker / graph shared with the judged world; the
  result is ignored).  A planner keeps no state between invocations (the ILP's `_allowed_to_miss_deadlines` is
  an input of its model and is read at the judged call), so the captured model, the decisions and every oracle
  of the judged invocation must be what they are with a fresh scheduler.
"""
from __future__ import annotations

SCALE = 1000


def et(R, x, ms=False):
    """EventTime of `x` microseconds, written in milliseconds when `ms` (x must be a multiple of 1000)."""
    ET = R["EventTime"]
    x = int(x)
    if ms:
        if x % SCALE != 0:
            raise ValueError(f"{x} us is not a whole number of ms")
        return ET(x // SCALE, ET.Unit.MS)
    return ET(x, ET.Unit.US)


def children_mapping(g: dict, tasks: list) -> dict:
    """The `tasks=` argument of the real TaskGraph: keys in declaration order (`g["decl"]`, default index
    order), children in the order of `g["edges"]`."""
    decl = g.get("decl") or list(range(len(tasks)))
    if sorted(decl) != list(range(len(tasks))):
        raise ValueError("decl is not a permutation of the task indices")
    children = {tasks[i]: [] for i in decl}
    for a, b in g["edges"]:
        children[tasks[a]].append(tasks[b])
    return children


def node_order(g: dict, decl=None) -> list:
    """Node insertion order of the real graph (`Graph.__init__`: every key, followed by its children)."""
    n = len(g["tasks"])
    decl = decl or g.get("decl") or list(range(n))
    order = []
    for i in decl:
        if i not in order:
            order.append(i)
        for a, b in g["edges"]:
            if a == i and b not in order:
                order.append(b)
    return order


def is_topological_decl(g: dict) -> bool:
    """Is the real graph's node insertion order a topological order?"""
    pos = {v: k for k, v in enumerate(node_order(g))}
    return all(pos[a] < pos[b] for a, b in g["edges"])


def shuffle_decl(spec: dict, r) -> dict:
    """Random declaration order for every graph with an edge (in place)."""
    for g in spec["graphs"]:
        if not g["edges"]:
            continue
        decl = list(range(len(g["tasks"])))
        r.shuffle(decl)
        g["decl"] = decl
        edges = [list(e) for e in g["edges"]]
        r.shuffle(edges)
        g["edges"] = edges
    spec["flavour_decl"] = True
    return spec


TIME_FLAGS = ("lookahead", "disc", "plan_ahead")
PREV_TIMES = ("time", "sched_at", "remaining", "finish")


def scale_mixed(spec: dict, r, p_ms=0.5) -> dict:
    """The same world on a 1000x time scale with mixed units inside profiles (in place)."""
    if spec.get("scale"):
        return spec
    spec["scale"] = SCALE
    spec["now"] *= SCALE
    f = spec["flags"]
    for k in TIME_FLAGS:
        if k in f and f[k] is not None and f[k] > 0:
            f[k] *= SCALE
    if spec.get("profiles") or spec.get("batching"):
        raise ValueError("scale_mixed: batching worlds (shared profiles) are not supported")
    for g in spec["graphs"]:
        for t in g["tasks"]:
            if t.get("release") is not None:
                t["release"] *= SCALE
                if r.random() < p_ms:
                    t["rel_ms"] = True
            t["deadline"] *= SCALE
            if t["deadline"] >= 0 and r.random() < p_ms:
                t["dl_ms"] = True
            strats = t.get("strats") or []
            for s in strats:
                s["runtime"] *= SCALE
            rts = [s["runtime"] for s in strats]
            if len(set(rts)) > 1 and r.random() < 0.6:
                # the slowest strategy in milliseconds, the others in microseconds: the raw integers are
                # then ordered the other way round than the durations (5 ms vs 2000 us)
                for s in strats:
                    if s["runtime"] == max(rts):
                        s["rt_ms"] = True
            else:
                for s in strats:
                    if r.random() < p_ms:
                        s["rt_ms"] = True
            if t.get("prev"):
                for k in PREV_TIMES:
                    if k in t["prev"]:
                        t["prev"][k] *= SCALE
    return spec


def has_mixed_profile(spec: dict) -> bool:
    return any(
        len({bool(s.get("rt_ms")) for s in t.get("strats") or []}) > 1 for g in spec["graphs"] for t in g["tasks"]
    )


def gen_chain_b(r, now_choices=(0, 3, 7), extra_graph=True) -> dict:
    """Common part of a chain-B world: `now`, `pools`, `graphs`, `lookahead`, `control`.

    One or two graphs `[P ->] X -> B -> C [-> D]`: P COMPLETED, X RUNNING with `remaining`, B SCHEDULED by an
    earlier invocation for the moment X is expected to finish (or a little later), C / D VIRTUAL.  CPU-only
    homogeneous workers with room for everything (no strategy is incompatible with a worker).  Unless
    `control`, `max runtime of B <= lookahead < remaining of X`."""
    now = r.choice(list(now_choices))
    control = r.random() < 0.25
    n_workers = r.randint(1, 2)
    pools = [{"name": "P0", "workers": [{"name": f"W{i}", "res": [["CPU", r.randint(3, 4)]]} for i in range(n_workers)]}]
    look = r.randint(1, 4)
    graphs = []
    slot = 0
    for gi in range(r.choice([1, 1, 2])):
        tasks, edges = [], []
        prefix = r.random() < 0.3

        def strat(rt, cpu=1):
            return {"batch": 1, "runtime": rt, "req": [["CPU", cpu]]}

        rem_x = look + r.randint(1, 3)
        elapsed = r.randint(0, min(2, now))
        rt_x = rem_x + elapsed
        started = now - elapsed
        rt_b = [r.randint(1, look) for _ in range(r.randint(1, 2))]
        rt_c = [r.randint(1, 3) for _ in range(r.randint(1, 2))]
        at_b = now + rem_x + r.choice([0, 0, 1, 2])
        sb = r.randrange(len(rt_b))
        dl = now + rem_x + 2 + max(rt_b) + 2 * max(rt_c) + 6 + r.randint(0, 3)
        wi = slot % n_workers
        slot += 1
        if prefix:
            tasks.append({"name": "P", "ts": 0, "state": "COMPLETED", "strats": [strat(2)], "deadline": dl, "release": 0,
                          "prev": {"w": wi, "s": 0, "time": 0, "sched_at": 0, "finish": started}})
        ix = len(tasks)
        tasks.append({"name": "X", "ts": 0, "state": "RUNNING", "strats": [strat(rt_x)], "deadline": dl, "release": started,
                      "prev": {"w": wi, "s": 0, "time": started, "sched_at": started, "remaining": rem_x}})
        tasks.append({"name": "B", "ts": 0, "state": "SCHEDULED", "strats": [strat(x) for x in rt_b], "deadline": dl,
                      "release": max(0, now - 1), "prev": {"w": wi, "s": sb, "time": at_b, "sched_at": max(0, now - 1)}})
        tasks.append({"name": "C", "ts": 0, "state": "VIRTUAL", "strats": [strat(x) for x in rt_c], "deadline": dl, "release": None})
        n = len(tasks)
        edges = [[i, i + 1] for i in range(n - 1)]
        if r.random() < 0.4:
            tasks.append({"name": "D", "ts": 0, "state": "VIRTUAL", "strats": [strat(r.randint(1, 2))], "deadline": dl, "release": None})
            edges.append([n - 1, n])
        # declaration order: B in front of X in the node insertion order (its own edge B -> C is then declared
        # before X -> B and B is expanded before X has raised its estimate), in 3 of 4 worlds
        ib = ix + 1
        es = [list(e) for e in edges]
        r.shuffle(es)
        g = {"name": f"G{gi}", "tasks": tasks, "edges": es}
        decl = list(range(len(tasks)))
        want = r.random() < 0.75
        for _ in range(50):
            r.shuffle(decl)
            no = node_order(g, decl)
            if (no.index(ib) < no.index(ix)) == want:
                break
        g["decl"] = decl
        graphs.append(g)
    if control:
        look = 30
    elif extra_graph and r.random() < 0.4:
        graphs.append({"name": f"G{len(graphs)}", "edges": [], "tasks": [
            {"name": "Y", "ts": 0, "state": "RELEASED", "strats": [{"batch": 1, "runtime": r.randint(1, 3), "req": [["CPU", 1]]}],
             "deadline": now + 12, "release": now}]})
    return {"now": now, "pools": pools, "graphs": graphs, "lookahead": look, "control": control}


def gen_warmup(spec: dict, r) -> dict:
    """Adds `spec["warmup"]` (in place): an earlier instant, a 1-2 CPU worker and one or two released tasks whose
    deadline is the earliest finish or a little later (on the spec's time scale)."""
    k = spec.get("scale") or 1
    t0 = r.randint(0, spec["now"] // k) * k
    tasks = []
    for _ in range(r.randint(1, 2)):
        rt = r.randint(1, 4)
        tasks.append({"runtime": rt * k, "deadline": t0 + (rt + r.randint(0, 2)) * k})
    spec["warmup"] = {"now": t0, "cpu": r.randint(1, 2), "tasks": tasks}
    return spec


def run_warmup(R, scheduler, wu: dict):
    """One invocation of `scheduler` on the warm-up world; returns what it returned (ignored by the callers)."""
    Resource, Resources = R["Resource"], R["Resources"]
    worker = R["Worker"](name="WarmW", resources=Resources({Resource(name="CPU"): wu["cpu"]}))
    pool = R["WorkerPool"](name="WarmP", workers=[worker])
    graphs = {}
    for i, t in enumerate(wu["tasks"]):
        strategies = R["ExecutionStrategies"](
            [R["ExecutionStrategy"](resources=Resources(resource_vector={Resource(name="CPU", _id="any"): 1}), batch_size=1, runtime=et(R, t["runtime"]))]
        )
        task = R["Task"](
            name=f"Warm{i}",
            task_graph=f"WARM{i}",
            job=R["Job"](name=f"Warm{i}", profile=R["WorkProfile"](name=f"Warm{i}_profile", execution_strategies=strategies)),
            deadline=et(R, t["deadline"]),
            timestamp=0,
        )
        graphs[f"WARM{i}"] = R["TaskGraph"](name=f"WARM{i}", tasks={task: []})
        task.release(et(R, wu["now"]))
    workload = R["Workload"].from_task_graphs(graphs)
    return scheduler.schedule(et(R, wu["now"]), workload, R["WorkerPools"]([pool]))
