"""Planner plugin: Z3Scheduler (schedulers/z3_scheduler.py) for the planner clauses of
C10 and C11.

For every generated invocation the plugin

1. builds the real objects (Workload / TaskGraph / Task in generated states, WorkerPools
   with RUNNING tasks really placed, i.e. partially occupied workers) from a JSON *world spec*;
2. runs the REAL `Z3Scheduler.schedule()` with `z3.Optimize` replaced, in the module under
   test, by a recording subclass (every `add` / `add_soft` / `maximize` / `minimize` /
   `check` is logged) and with the live cluster / task state snapshotted before and after;
3. derives the Lean instance from what `_add_variables` was really given, pipes it through the
   Lean driver (`gen inst` rendered assertion by assertion, `sat σ_solver`, `decode inst σ_solver`);
4. compares the captured assertions (hard, soft with weights, objective; own S-expression
   rendering of the z3 AST) with `gen inst`, the returned Placements with `decode`, the
   solver's objective value with the model's evaluation;
5. runs the model-independent oracle of the property on the real Placements and, for C11,
   asks z3 itself for a satisfying assignment of the CAPTURED REAL hard assertions that
   violates precedence.

`run` returns the list of correspondence disagreements (empty = model and code agree).
Oracle failures are reported through `chk.violation`.

The Z3 policy cannot be run end-to-end in the simulator (placements carry no execution
strategy, the TASK_SCHEDULED row crashes: D16), so it is exercised through direct
`schedule()` calls on generated states only.
"""
from __future__ import annotations

import contextlib
import io
import itertools
import json
import logging
import random as _pyrandom
import time as _time

from harness import common
from harness.planners import _worlds

NAME = "z3"
PROPS = {"C10", "C11"}
SUITE = "mip_z3"

# --------------------------------------------------------------------------
# Real-code access
# --------------------------------------------------------------------------

_R = {}


def _repo():
    """Import the real implementation once (from $ERDOS_REPO or /repo)."""
    if _R:
        return _R
    common.use_repo()
    logging.disable(logging.CRITICAL)
    import schedulers.z3_scheduler as z3_mod
    from schedulers.z3_scheduler import Z3Scheduler
    from utils import EventTime
    from workers import Worker, WorkerPool, WorkerPools
    from workload import (
        ExecutionStrategies,
        ExecutionStrategy,
        Job,
        Placement,
        Resource,
        Resources,
        Task,
        TaskGraph,
        TaskState,
        Workload,
        WorkProfile,
    )

    z3 = z3_mod.z3  # the module object the scheduler uses (`from z3 import z3`)
    base_opt = z3.Optimize

    class CapOptimize(base_opt):
        """z3.Optimize that logs everything the scheduler hands to it."""

        captured = []

        def __init__(self, *a, **k):
            base_opt.__init__(self, *a, **k)
            self.log = []  # ("hard", expr) | ("soft", expr, weight, id) | ("max"/"min", expr)
            self.checks = []
            CapOptimize.captured.append(self)

        def add(self, *args):
            for a in args:
                self.log.append(("hard", a))
            return base_opt.add(self, *args)

        def add_soft(self, arg, weight="1", id=None):
            self.log.append(("soft", arg, str(weight), id))
            return base_opt.add_soft(self, arg, weight, id)

        def maximize(self, arg):
            self.log.append(("max", arg))
            return base_opt.maximize(self, arg)

        def minimize(self, arg):
            self.log.append(("min", arg))
            return base_opt.minimize(self, arg)

        def check(self, *a):
            r = base_opt.check(self, *a)
            self.checks.append(str(r))
            return r

    _R.update(locals())
    return _R


def US(t):
    R = _repo()
    return R["EventTime"](int(t), R["EventTime"].Unit.US)


class World:
    pass


def build_world(spec: dict) -> World:
    """Construct the real objects described by `spec` (see `gen_world`)."""
    R = _repo()
    _pyrandom.seed(spec.get("uuid_seed", 0))  # the repo draws uuids from the global `random`
    Resource, Resources = R["Resource"], R["Resources"]
    w = World()
    w.spec = spec
    w.now = spec["now"]
    w.workers = []  # global order = z3 worker bit order
    pools = []
    for p in spec["pools"]:
        ws = []
        for wk in p["workers"]:
            res = Resources({Resource(name=n): q for n, q in wk["res"]})
            worker = R["Worker"](name=wk["name"], resources=res)
            ws.append(worker)
        pool = R["WorkerPool"](name=p["name"], workers=ws)
        pools.append(pool)
        for worker in ws:
            w.workers.append((worker, pool))
    w.pools = pools
    w.worker_pools = R["WorkerPools"](pools)
    w.tasks = {}
    w.task_list = []
    graphs = {}
    for g in spec["graphs"]:
        tasks = []
        for t in g["tasks"]:
            strategies = R["ExecutionStrategies"](
                [
                    R["ExecutionStrategy"](
                        resources=Resources(resource_vector={Resource(name=n, _id="any"): q for n, q in s["req"]}),
                        batch_size=s.get("batch", 1),
                        runtime=_worlds.et(R, s["runtime"], s.get("rt_ms")),  # mixed-unit flavour: some runtimes in ms
                    )
                    for s in t["strats"]
                ]
            )
            profile = R["WorkProfile"](name=f"{t['name']}_{g['name']}_profile", execution_strategies=strategies)
            task = R["Task"](
                name=t["name"],
                task_graph=g["name"],
                job=R["Job"](name=t["name"], profile=profile),
                deadline=_worlds.et(R, t["deadline"], t.get("dl_ms")),
                timestamp=t.get("ts", 0),
            )
            tasks.append(task)
        # node insertion order of the real graph = declaration order g["decl"] (default: index order)
        graphs[g["name"]] = R["TaskGraph"](name=g["name"], tasks=_worlds.children_mapping(g, tasks))
        for t, task in zip(g["tasks"], tasks):
            w.tasks[task.unique_name] = task
            w.task_list.append((t, task))
    w.workload = R["Workload"].from_task_graphs(graphs)
    for t, task in w.task_list:
        st = t["state"]
        if st == "VIRTUAL":
            if t.get("release") is not None:
                task._release_time = _worlds.et(R, t["release"], t.get("rel_ms"))  # estimated release of a not yet released task
            continue
        task.release(_worlds.et(R, t["release"], t.get("rel_ms")))
        if st == "RELEASED":
            continue
        prev = t["prev"]
        worker, pool = w.workers[prev["w"]]
        strategy = task.available_execution_strategies[prev["s"]]
        placement = R["Placement"].create_task_placement(
            task=task,
            placement_time=US(prev["time"]),
            worker_pool_id=pool.id,
            worker_id=worker.id,
            execution_strategy=strategy,
        )
        task.schedule(US(prev["sched_at"]), placement)
        if st == "SCHEDULED":
            continue
        task.start(US(prev["time"]))
        if st == "RUNNING":
            ok = pool.place_task(task, execution_strategy=strategy, worker_id=worker.id)
            if not ok:
                raise RuntimeError("generator produced an over-subscribed RUNNING set")
            task.update_remaining_time(US(prev["remaining"]))
            continue
        if st == "COMPLETED":
            task.update_remaining_time(US(0))
            task.finish(US(prev["finish"]))
            continue
        raise ValueError(st)
    f = spec["flags"]
    w.scheduler = R["Z3Scheduler"](
        preemptive=False,
        runtime=US(0),
        lookahead=US(f["lookahead"]),
        enforce_deadlines=f["enforce_deadlines"],
        retract_schedules=f["retract"],
        release_taskgraphs=f["release_taskgraphs"],
        goal="max_slack",
    )
    if spec.get("warmup"):
        # warm-scheduler flavour: the same scheduler object has already been invoked once, on an unrelated world
        with contextlib.redirect_stdout(io.StringIO()):
            _worlds.run_warmup(R, w.scheduler, spec["warmup"])
    return w


def _t(et):
    R = _repo()
    return et.to(R["EventTime"].Unit.US).time


def snapshot(w: World):
    """Every live getter the property talks about: cluster occupancy and task fields."""
    R = _repo()
    cl = []
    for worker, pool in w.workers:
        res = worker.resources
        cl.append(
            (
                worker.name,
                [(r.name, r.id == "any", q) for r, q in res.resources],
                [(r.name, q) for r, q in res._resource_vector.items()],
                sorted(t.unique_name for t in worker.get_placed_tasks()),
                sorted(t.unique_name for t in pool.get_placed_tasks()),
            )
        )
    ts = []
    for _, task in w.task_list:
        cp = task.current_placement
        ts.append(
            (
                task.unique_name,
                str(task.state),
                _t(task.release_time),
                _t(task.deadline),
                None if cp is None else (id(cp), cp.placement_time.time, cp.worker_id, id(cp.execution_strategy)),
                None if task._remaining_time is None else task._remaining_time.time,
                task.start_time.time,
                task.worker_pool_id,
                len(task.available_execution_strategies),
            )
        )
    return (cl, ts)


def real_schedule(w: World) -> dict:
    """Run the real schedule() with capture. Returns everything observed."""
    R = _repo()
    z3, CapOptimize = R["z3"], R["CapOptimize"]
    CapOptimize.captured.clear()
    # A fresh main context per call: which of several optima z3 returns otherwise depends on
    # everything solved before in the process, and a replay could not reproduce it.
    z3._main_ctx = None
    rec = {}
    sched = w.scheduler
    orig_add = sched._add_variables
    orig_get = w.workload.get_schedulable_tasks

    def get_wrapper(*a, **k):
        out = orig_get(*a, **k)
        rec["offered"] = list(out)
        return out

    def add_wrapper(sim_time, optimizer, tasks, workers):
        rec["tasks"] = list(tasks)
        rec["workers"] = dict(workers)
        return orig_add(sim_time, optimizer, tasks, workers)

    w.workload.get_schedulable_tasks = get_wrapper
    sched._add_variables = add_wrapper
    saved = z3.Optimize
    z3.Optimize = CapOptimize
    before = snapshot(w)
    err = None
    placements = None
    sink = io.StringIO()  # schedule() prints the time and the "last task" of every graph
    try:
        with contextlib.redirect_stdout(sink):
            placements = sched.schedule(US(w.now), w.workload, w.worker_pools)
    except Exception as e:  # an exception is an outcome
        msg = e.value if hasattr(e, "value") else str(e)
        if isinstance(msg, bytes):
            msg = msg.decode(errors="replace")
        err = type(e).__name__ + ": " + str(msg)[:200]
    finally:
        z3.Optimize = saved
        del w.workload.get_schedulable_tasks
        del sched._add_variables
    after = snapshot(w)
    rec.update(
        placements=placements,
        err=err,
        pure=(before == after),
        opt=CapOptimize.captured[-1] if CapOptimize.captured else None,
        n_models=len(CapOptimize.captured),
    )
    return rec


# --------------------------------------------------------------------------
# Canonical rendering of z3 terms (own printer: no let-bindings, no line breaks)
# --------------------------------------------------------------------------


def _kinds():
    R = _repo()
    z3 = R["z3"]
    if "KIND" not in _R:
        _R["KIND"] = {
            z3.Z3_OP_TRUE: "true",
            z3.Z3_OP_FALSE: "false",
            z3.Z3_OP_EQ: "=",
            z3.Z3_OP_IFF: "=",
            z3.Z3_OP_DISTINCT: "distinct",
            z3.Z3_OP_ITE: "ite",
            z3.Z3_OP_AND: "and",
            z3.Z3_OP_OR: "or",
            z3.Z3_OP_NOT: "not",
            z3.Z3_OP_IMPLIES: "=>",
            z3.Z3_OP_LE: "<=",
            z3.Z3_OP_GE: ">=",
            z3.Z3_OP_LT: "<",
            z3.Z3_OP_GT: ">",
            z3.Z3_OP_ADD: "+",
            z3.Z3_OP_SUB: "-",
            z3.Z3_OP_MUL: "*",
            z3.Z3_OP_UMINUS: "neg",
            z3.Z3_OP_BXOR: "bvxor",
            z3.Z3_OP_BAND: "bvand",
            z3.Z3_OP_BOR: "bvor",
            z3.Z3_OP_BNOT: "bvnot",
        }
    return _R["KIND"]


def render(e) -> str:
    """S-expression of a z3 term. Variables carry their sort: I:name, B:name, V<w>:name;
    bit-vector literals are #<w>:<value>."""
    R = _repo()
    z3 = R["z3"]
    if z3.is_int_value(e):
        return str(e.as_long())
    if z3.is_bv_value(e):
        return f"#{e.size()}:{e.as_long()}"
    k = e.decl().kind()
    if k == z3.Z3_OP_UNINTERPRETED and e.num_args() == 0:
        if z3.is_bool(e):
            return "B:" + e.decl().name()
        if z3.is_int(e):
            return "I:" + e.decl().name()
        if z3.is_bv(e):
            return f"V{e.size()}:" + e.decl().name()
        return "?:" + e.decl().name()
    if k == z3.Z3_OP_EXTRACT:
        p = e.params()
        return f"(extract {p[0]} {p[1]} {render(e.arg(0))})"
    name = _kinds().get(k)
    if name is None:
        name = "?" + e.decl().name()
    if e.num_args() == 0:
        return name if name in ("true", "false") else f"({name})"
    return "(" + name + " " + " ".join(render(c) for c in e.children()) + ")"


def consts_of(exprs) -> dict:
    """All uninterpreted constants of the captured terms: rendered name -> z3 const."""
    R = _repo()
    z3 = R["z3"]
    out, seen, stack = {}, set(), list(exprs)
    while stack:
        e = stack.pop()
        if e.get_id() in seen:
            continue
        seen.add(e.get_id())
        if z3.is_const(e) and e.decl().kind() == z3.Z3_OP_UNINTERPRETED:
            out[render(e)] = e
        stack.extend(e.children())
    return out


def canon_real(opt) -> dict:
    hard, soft, obj = [], [], []
    for ent in opt.log:
        if ent[0] == "hard":
            hard.append(render(ent[1]))
        elif ent[0] == "soft":
            soft.append(f"(soft {ent[2]} {ent[3] if ent[3] is not None else '-'} {render(ent[1])})")
        else:
            obj.append(f"({ent[0]} {render(ent[1])})")
    return {"hard": sorted(hard), "soft": sorted(soft), "obj": obj}


def canon_lean(reply: dict) -> dict:
    return {"hard": sorted(reply["hard"]), "soft": sorted(reply["soft"]), "obj": list(reply["obj"])}


def diff_models(a: dict, b: dict) -> list[str]:
    """a = captured real assertions, b = Lean gen. Human-readable differences."""
    from collections import Counter

    out = []
    for k in ("hard", "soft"):
        if a[k] != b[k]:
            ca, cb = Counter(a[k]), Counter(b[k])
            out.append(
                f"{k} assertions only-real={sorted((ca - cb).elements())[:3]} only-model={sorted((cb - ca).elements())[:3]}"
            )
    if a["obj"] != b["obj"]:
        out.append(f"objective real={a['obj']} model={b['obj']}")
    return out


# --------------------------------------------------------------------------
# Lean instance
# --------------------------------------------------------------------------


def _entries(worker):
    """(name, total, available) per resource entry of a worker, in entry order."""
    res = worker.resources
    avail = list(res._resource_vector.items())
    out = []
    for r, total in res.resources:
        q = [a for rr, a in avail if rr.name == r.name and rr.id == r.id]
        out.append([r.name, int(total), int(q[0]) if q else 0])
    return out


def extract_inst(w: World, rec: dict) -> dict:
    """The Lean instance, read from what `_add_variables` was really given."""
    tasks = rec["tasks"]
    pool_of = {wk.id: pool.name for wk, pool in w.workers}
    jt = []
    for task in tasks:
        jt.append(
            {
                "uniq": task.unique_name,
                "graph": task.task_graph,
                "state": task.state.name,
                "release": _t(task.release_time),
                "deadline": _t(task.deadline),
                "remaining0": 0 if task._remaining_time is None else max(0, _t(task._remaining_time)),
                "strats": [
                    {"runtime": _t(s.runtime), "req": [[r.name, q] for r, q in s.resources.resources]}
                    for s in task.available_execution_strategies
                ],
            }
        )
    jw = [{"name": wk.name, "pool": pool_of[wk.id], "res": _entries(wk)} for _, wk in rec["workers"].items()]
    nodes, edges = [], []
    for gname in dict.fromkeys(t.task_graph for t in tasks):
        g = w.workload.get_task_graph(gname)
        for n in g.get_nodes():
            fin = -1
            if n.state.name == "RUNNING":
                fin = w.now + _t(n.remaining_time)
            elif n.state.name == "SCHEDULED":
                fin = _t(n.current_placement.placement_time) + _t(n.remaining_time)
            nodes.append({"uniq": n.unique_name, "graph": n.task_graph, "deadline": _t(n.deadline), "finish": fin})
            for p in g.get_parents(n):
                edges.append([p.unique_name, n.unique_name])
    # specification data only: what SCHEDULED tasks outside the call will occupy
    widx = {wk.id: i for i, (_k, wk) in enumerate(rec["workers"].items())}
    offered = {t.unique_name for t in tasks}
    reserved = []
    for _, task in w.task_list:
        if task.state.name == "SCHEDULED" and task.unique_name not in offered:
            cp = task.current_placement
            s0 = _t(cp.placement_time)
            for rn, q in _req(cp.execution_strategy).items():
                reserved.append({"worker": widx.get(cp.worker_id, 0), "res": rn, "qty": q, "from": s0, "to": s0 + _t(cp.execution_strategy.runtime)})
    return {
        "now": w.now,
        "workers": jw,
        "tasks": jt,
        "nodes": nodes,
        "edges": edges,
        "enforce_deadlines": w.spec["flags"]["enforce_deadlines"],
        "reserved": reserved,
    }


def solver_sigma(opt) -> dict:
    """The solver's model as {rendered constant: value}; constants the model leaves open are
    completed with z3's default."""
    R = _repo()
    z3 = R["z3"]
    m = opt.model()
    exprs = [e[1] for e in opt.log]
    sig = {}
    for name, c in consts_of(exprs).items():
        v = m.eval(c, model_completion=True)
        if z3.is_bool(c):
            sig[name] = bool(z3.is_true(v))
        else:
            sig[name] = int(v.as_long())
    return sig


def real_decisions(w: World, rec: dict) -> list[dict]:
    """Returned Placements in canonical form (order kept)."""
    widx = {wk.id: i for i, (k, wk) in enumerate(rec["workers"].items())} if "workers" in rec else {}
    pool_name = {pool.id: pool.name for pool in w.pools}
    out = []
    for p in rec["placements"]:
        task = p.task
        if p.is_placed():
            d = {
                "task": task.unique_name,
                "placed": True,
                "worker": widx.get(p.worker_id, -1),
                "pool": pool_name.get(p.worker_pool_id, "?"),
                "time": _t(p.placement_time),
            }
            if p.execution_strategy is not None:
                d["strategy"] = "reported"  # the model says: none
            out.append(d)
        else:
            out.append({"task": task.unique_name, "placed": False})
    return out


# --------------------------------------------------------------------------
# Model-independent oracles (real objects only)
# --------------------------------------------------------------------------


def _req(strategy) -> dict:
    d = {}
    for r, q in strategy.resources.resources:
        d[r.name] = d.get(r.name, 0) + q
    return d


def _caps(w: World) -> dict:
    cap = {}
    for wk, _pool in w.workers:
        tot = {}
        for r, q in wk.resources.resources:
            tot[r.name] = tot.get(r.name, 0) + q
        cap[wk.id] = tot
    return cap


def _fixed_intervals(w: World, rec: dict, with_scheduled=True):
    """Occupancy [start, end) of tasks the call did not decide: RUNNING tasks and SCHEDULED
    tasks that were not re-decided."""
    decided = {p.task.unique_name for p in rec["placements"]}
    out = []
    for _, task in w.task_list:
        if task.unique_name in decided:
            continue
        st = task.state.name
        if st == "RUNNING":
            cp = task.current_placement
            out.append((cp.worker_id, w.now, w.now + _t(task.remaining_time), _req(cp.execution_strategy)))
        elif st == "SCHEDULED" and with_scheduled:
            cp = task.current_placement
            s0 = _t(cp.placement_time)
            out.append((cp.worker_id, s0, s0 + _t(cp.execution_strategy.runtime), _req(cp.execution_strategy)))
    return out


def _feasible(cap, intervals) -> bool:
    for _wid, s0, _e0, _ in intervals:
        for wk_id, tot in cap.items():
            use = {}
            for wid2, s, e, req in intervals:
                if wid2 == wk_id and s <= s0 < e:
                    for rn, q in req.items():
                        use[rn] = use.get(rn, 0) + q
            for rn, q in use.items():
                if q > tot.get(rn, 0):
                    return False
    return True


def capacity_verdict(w: World, rec: dict):
    """A Z3 placement names no strategy.  The decision is accepted if SOME choice of one of each
    placed task's own strategies keeps every worker within its total capacity at every planned
    instant (half-open occupancy [start, start + runtime), together with RUNNING tasks and the
    SCHEDULED tasks the call did not re-decide).  Returns None or the failing class."""
    cap = _caps(w)
    placed = [p for p in rec["placements"] if p.is_placed()]
    choices = []
    for p in placed:
        if p.execution_strategy is not None:
            choices.append([p.execution_strategy])
        else:
            choices.append(list(p.task.available_execution_strategies))

    def plan(combo):
        return [(p.worker_id, _t(p.placement_time), _t(p.placement_time) + _t(s.runtime), _req(s)) for p, s in zip(placed, combo)]

    combos = list(itertools.islice(itertools.product(*choices), 4096))
    fixed = _fixed_intervals(w, rec, True)
    if any(_feasible(cap, plan(c) + fixed) for c in combos):
        return None
    fixed_ns = _fixed_intervals(w, rec, False)
    if len(fixed_ns) != len(fixed) and any(_feasible(cap, plan(c) + fixed_ns) for c in combos):
        return "capacity exceeded at a planned instant together with a SCHEDULED task that was not re-offered"
    used = {p.worker_id for p in placed}
    for wk, _pool in w.workers:
        names = [r.name for r, _ in wk.resources.resources]
        if wk.id in used and len(set(names)) != len(names):
            return "capacity exceeded at a planned instant on a worker with two resource entries of one name"
    return "capacity exceeded at a planned instant"


def reachable_state(w: World, rec: dict) -> bool:
    """In retracting mode the simulator re-offers every SCHEDULED task; a generated state in
    which one is left out (a planned-ahead child pushed out of the lookahead by its parent's
    estimate) is not reachable with fixed flags.  Such cases take part in the model comparison
    only."""
    if not w.spec["flags"]["retract"]:
        return True
    offered = {t.unique_name for t in rec.get("offered", [])}
    return all(t.unique_name in offered for _, t in w.task_list if t.state.name == "SCHEDULED")


def classify_error(err: str) -> str:
    cls = err.split(":")[0]
    if cls == "Z3Exception" and "invalid extract application" in err:
        return "schedule() raised Z3Exception (invalid extract application): a resource entry's total quantity exceeds the bit-vector width (largest available quantity)"
    if cls == "Z3Exception" and "bit-vector size must be greater than zero" in err:
        return "schedule() raised Z3Exception (bit-vector size must be greater than zero): a resource type of an offered task has no available unit on any worker"
    return f"schedule() raised {cls}"


def oracle_c10(w: World, rec: dict) -> list[str]:
    """Complete, feasible, side-effect-free decision (planner clauses)."""
    bad = []
    if rec["err"]:
        out = [classify_error(rec["err"])]
        if not rec["pure"]:
            out.append("live cluster or task state changed by schedule()")
        return out
    pls = list(rec["placements"])
    names = [p.task.unique_name for p in pls]
    if len(set(names)) != len(names):
        bad.append("two decisions for one task")
    offered = {t.unique_name for t in rec.get("offered", [])}
    for p in pls:
        t = p.task
        st = t.state.name
        if st in ("RUNNING", "COMPLETED"):
            bad.append(f"decision for a {st} task")
        if t.unique_name not in offered:
            bad.append("decision for a task that was not offered")
    for u in offered:
        if u not in names:
            bad.append("offered task without decision")
    pool_ids = {pool.id: pool for pool in w.pools}
    wellformed = True
    for p in pls:
        if not p.is_placed():
            continue
        t = p.task
        pool = pool_ids.get(p.worker_pool_id)
        if pool is None:
            bad.append("unknown pool")
            wellformed = False
            continue
        if p.worker_id is not None and p.worker_id not in {wk.id for wk in pool.workers}:
            bad.append("worker not in the named pool")
            wellformed = False
        if p.worker_id is None:
            wellformed = False
        if p.execution_strategy is not None and not any(s is p.execution_strategy for s in t.available_execution_strategies):
            bad.append("strategy does not belong to the task")
        if _t(p.placement_time) < w.now:
            bad.append("placement time before now")
        if not t.release_time.is_invalid() and t.state.name != "VIRTUAL" and _t(p.placement_time) < _t(t.release_time):
            bad.append("placement time before the known release")
    if wellformed:
        v = capacity_verdict(w, rec)
        if v:
            bad.append(v)
    if not rec["pure"]:
        bad.append("live cluster or task state changed by schedule()")
    return sorted(set(bad))


def _parent_runtime(par) -> int:
    """The predecessor's runtime in the property's sense: the strategy chosen earlier for a
    SCHEDULED task that is decided again, otherwise the worst case (slowest strategy)."""
    if par.state.name == "SCHEDULED" and par.current_placement is not None and par.current_placement.execution_strategy is not None:
        return _t(par.current_placement.execution_strategy.runtime)
    return max(_t(s.runtime) for s in par.available_execution_strategies)


def oracle_c11(w: World, rec: dict) -> list[str]:
    bad = []
    if rec["err"]:
        return []
    decided = {p.task.unique_name: p for p in rec["placements"]}
    for p in rec["placements"]:
        if not p.is_placed():
            continue
        c = p.task
        g = w.workload.get_task_graph(c.task_graph)
        for par in g.get_parents(c):
            st = par.state.name
            if par.unique_name in decided:
                pp = decided[par.unique_name]
                if not pp.is_placed():
                    bad.append("child placed while a parent decided in the same call is unplaced")
                elif _t(p.placement_time) < _t(pp.placement_time) + _parent_runtime(par):
                    bad.append("child starts before parent start + runtime")
            elif st == "RUNNING":
                if _t(p.placement_time) < w.now + _t(par.remaining_time):
                    bad.append("child starts before the expected finish of a RUNNING parent")
            elif st == "SCHEDULED":
                cp = par.current_placement
                if _t(p.placement_time) < _t(cp.placement_time) + _t(par.remaining_time):
                    bad.append("child starts before the expected finish of a SCHEDULED parent" + _RETRACTING * bool(w.spec["flags"]["retract"]))
    return sorted(set(bad))


# In retracting mode the frontier (`TaskGraph.get_schedulable_tasks`) hands a child to the planner only
# together with its SCHEDULED parents (the child's estimate is the parent's plus its own runtime, so it can
# lie inside the lookahead only if the parent's does): a child placed before the finish of a SCHEDULED parent
# that was left out is then not the Z3 encoding's blind spot for tasks outside the call (C11-Z3-1) but a
# frontier that offered the child alone.
_RETRACTING = " that the retracting frontier did not re-offer together with the child"


# ---- C11: adversarial query on the captured real assertions ----------------


def adversarial_precedence(w: World, rec: dict) -> list[str]:
    """Ask z3 for a satisfying assignment of the CAPTURED REAL hard assertions in which a child
    is placed while an offered parent is not, starts before parent start + runtime, or starts
    before the expected finish of a RUNNING / SCHEDULED parent that is not part of the call."""
    R = _repo()
    z3 = R["z3"]
    opt = rec["opt"]
    hard = [e[1] for e in opt.log if e[0] == "hard"]
    consts = consts_of(hard)
    offered = {t.unique_name: t for t in rec["tasks"]}
    s = z3.Solver(ctx=opt.ctx)  # the context of the captured terms (a fresh one per call)
    s.set("timeout", 20000)  # ms per query; "unknown" counts as no hit
    s.add(*hard)
    found = []
    for c in rec["tasks"]:
        pc = consts.get(f"B:{c.unique_name}_is_placed")
        sc = consts.get(f"I:{c.unique_name}_start")
        if pc is None:
            continue
        g = w.workload.get_task_graph(c.task_graph)
        for par in g.get_parents(c):
            qs = []
            if par.unique_name in offered:
                pp = consts.get(f"B:{par.unique_name}_is_placed")
                sp_ = consts.get(f"I:{par.unique_name}_start")
                if pp is not None:
                    qs.append((z3.And(pc, z3.Not(pp)), f"{c.unique_name} placed while offered parent {par.unique_name} is unplaced", "child placed while a parent decided in the same call is unplaced"))
                if sc is not None and sp_ is not None:
                    qs.append((z3.And(pc, sc < sp_ + _parent_runtime(par)), f"{c.unique_name} starts before parent {par.unique_name} start + runtime", "child starts before parent start + runtime"))
                elif sc is None or sp_ is None:
                    qs.append((pc, f"{c.unique_name} placed with an unconstrained start", "child starts before parent start + runtime"))
            elif par.state.name in ("RUNNING", "SCHEDULED") and sc is not None:
                fin = (w.now if par.state.name == "RUNNING" else _t(par.current_placement.placement_time)) + _t(par.remaining_time)
                retr = _RETRACTING * bool(par.state.name == "SCHEDULED" and w.spec["flags"]["retract"])
                qs.append((z3.And(pc, sc < fin), f"{c.unique_name} starts before {par.state.name} parent {par.unique_name} finishes at {fin}", f"child starts before the expected finish of a {par.state.name} parent{retr}"))
            for q, what, cls in qs:
                s.push()
                s.add(q)
                r = s.check()
                if r == z3.sat:
                    m = s.model()
                    vals = {k: str(m.eval(v, model_completion=True)) for k, v in consts.items() if k in (f"I:{c.unique_name}_start", f"I:{par.unique_name}_start")}
                    found.append((cls, f"{what} {vals}"))
                s.pop()
    return found


# ---- C10: adversarial queries on the captured real assertions --------------


def adversarial_c10(w: World, rec: dict) -> list:
    """Ask z3 for a satisfying assignment of the CAPTURED REAL hard assertions (any feasible
    solution, not only the optimum) in which a placed task names no existing worker, starts
    before now / its known release, or in which up to three offered tasks (plus the RUNNING
    tasks of the worker) occupy one worker at one instant although every choice of their
    strategies exceeds the worker's total capacity (durations: each task's fastest strategy)."""
    R = _repo()
    z3 = R["z3"]
    opt = rec["opt"]
    hard = [e[1] for e in opt.log if e[0] == "hard"]
    consts = consts_of(hard)
    nW = len(rec["workers"])
    s = z3.Solver(ctx=opt.ctx)  # the context of the captured terms (a fresh one per call)
    s.set("timeout", 20000)  # ms per query; "unknown" counts as no hit
    s.add(*hard)
    found = []

    def ask(q):
        s.push()
        s.add(q)
        r = s.check()
        s.pop()
        return r == z3.sat

    info = []
    for t in rec["tasks"]:
        pc = consts.get(f"B:{t.unique_name}_is_placed")
        sc = consts.get(f"I:{t.unique_name}_start")
        wv = consts.get(f"V{nW}:{t.unique_name}_worker")
        if pc is None:
            continue
        if sc is None or wv is None:
            if ask(pc):
                found.append(("placed task without start / worker constant", f"{t.unique_name} can be placed"))
            continue
        strats = [(_t(x.runtime), _req(x)) for x in t.available_execution_strategies]
        info.append((t, pc, sc, wv, strats))
    keys = list(rec["workers"].keys())
    for t, pc, sc, wv, strats in info:
        if ask(z3.And(pc, z3.And([wv != k for k in keys]))):
            found.append(("placed task names no existing worker", f"{t.unique_name} placed with a worker value that is no key"))
        lo = w.now
        if not t.release_time.is_invalid() and t.state.name != "VIRTUAL":
            lo = max(lo, _t(t.release_time))
        if ask(z3.And(pc, sc < lo)):
            found.append(("placement time before now or the known release", f"{t.unique_name} can start before {lo}"))
    cap = _caps(w)
    for key, worker in rec["workers"].items():
        tot = cap[worker.id]
        names = [r.name for r, _ in worker.resources.resources]
        double = len(set(names)) != len(names)
        cls = "capacity exceeded at a planned instant" + (" on a worker with two resource entries of one name" if double else "")
        running = []
        for _, task in w.task_list:
            if task.state.name == "RUNNING" and task.current_placement.worker_id == worker.id:
                running.append((w.now + _t(task.remaining_time), _req(task.current_placement.execution_strategy)))
        hit = False
        for size in (1, 2, 3):
            for S in itertools.combinations(info, size):
                for with_running in ([False, True] if running else [False]):
                    base = {}
                    if with_running:
                        for _end, rq in running:
                            for rn, q in rq.items():
                                base[rn] = base.get(rn, 0) + q
                    over = True
                    for combo in itertools.product(*[x[4] for x in S]):
                        use = dict(base)
                        for _rt, rq in combo:
                            for rn, q in rq.items():
                                use[rn] = use.get(rn, 0) + q
                        if not any(q > tot.get(rn, 0) for rn, q in use.items()):
                            over = False
                            break
                    if not over:
                        continue
                    for l in S:
                        conds = [x[1] for x in S] + [x[3] == key for x in S]
                        for x in S:
                            if x is not l:
                                conds += [x[2] <= l[2], l[2] < x[2] + min(rt for rt, _ in x[4])]
                        if with_running:
                            conds.append(l[2] < min(end for end, _ in running))
                        if ask(z3.And(conds)):
                            found.append((cls, f"{[x[0].unique_name for x in S]} together on {worker.name}" + (" with its RUNNING tasks" if with_running else "")))
                            hit = True
                            break
                    if hit:
                        break
                if hit:
                    break
            if hit:
                break
    return found


# --------------------------------------------------------------------------
# Generators
# --------------------------------------------------------------------------


def gen_world(rng, kind: str) -> dict:
    """A world spec. `kind`: 'mix' (states / partially occupied heterogeneous clusters, C10),
    'dag' (graph shapes, partial offers, C11)."""
    now = rng.choice([0, 0, 3, 7])
    n_pools = 1 if rng.random() < 0.5 else 2
    n_workers = rng.randint(1, 3)
    pools = [{"name": f"P{i}", "workers": []} for i in range(n_pools)]
    gpu_cluster = rng.random() < 0.6
    for i in range(n_workers):
        res = [["CPU", rng.randint(1, 3)]]
        if gpu_cluster and rng.random() < 0.6:
            res.append(["GPU", rng.randint(1, 2)])
        if rng.random() < 0.07:
            res.append(["CPU", 1])  # a second CPU entry
        pools[i % n_pools]["workers"].append({"name": f"W{i}", "res": res})
    pools = [p for p in pools if p["workers"]]
    order = [wk for p in pools for wk in p["workers"]]
    has_gpu = any(any(r == "GPU" for r, _ in wk["res"]) for wk in order)
    max_tasks = 5
    n_graphs = rng.randint(1, 3)
    horizon = rng.randint(6, 14)
    flags = {
        "enforce_deadlines": rng.random() < 0.6,
        "retract": rng.random() < 0.25,
        "release_taskgraphs": rng.random() < (0.3 if kind == "dag" else 0.15),
        "lookahead": rng.choice([0, 0, 4, 30]),
    }
    p_running = rng.choice([0.0, 0.1, 0.25]) if kind == "mix" else rng.choice([0.0, 0.0, 0.15])
    p_sched = rng.choice([0.0, 0.1, 0.2])
    totals = []
    for wk in order:
        tot = {}
        for r, q in wk["res"]:
            tot[r] = tot.get(r, 0) + q
        totals.append(tot)
    booked = [[] for _ in order]

    def fits(wi, req, s0, e0):
        reqd = {}
        for rr, q in req:
            reqd[rr] = reqd.get(rr, 0) + q
        if any(totals[wi].get(rr, 0) < q for rr, q in reqd.items()):
            return False
        for tau in [s0] + [b[0] for b in booked[wi] if s0 <= b[0] < e0]:
            use = dict(reqd)
            for bs, be, breq in booked[wi]:
                if bs <= tau < be:
                    for rr, q in breq.items():
                        use[rr] = use.get(rr, 0) + q
            if any(q > totals[wi].get(rr, 0) for rr, q in use.items()):
                return False
        return True

    def book(wi, req, s0, e0):
        reqd = {}
        for rr, q in req:
            reqd[rr] = reqd.get(rr, 0) + q
        booked[wi].append((s0, e0, reqd))

    graphs = []
    total = 0
    for gi in range(n_graphs):
        if total >= max_tasks:
            break
        k = rng.randint(1, min(4, max_tasks - total))
        total += k
        shape = rng.choice(["chain", "chain", "dag", "indep"] if kind == "dag" else ["chain", "dag", "indep", "indep"])
        edges = []
        if shape == "chain":
            edges = [[i, i + 1] for i in range(k - 1)]
        elif shape == "dag":
            for a in range(k):
                for b in range(a + 1, k):
                    if rng.random() < 0.5:
                        edges.append([a, b])
        tasks = []
        for ti in range(k):
            ns = rng.randint(1, 2)
            strats = []
            for _si in range(ns):
                req = [["CPU", rng.randint(1, 2)]]
                if has_gpu and rng.random() < 0.3:
                    req.append(["GPU", 1])
                if has_gpu and rng.random() < 0.1:
                    req = [["GPU", 1]]
                if not has_gpu and rng.random() < 0.04:
                    req = [["GPU", 1]]  # a strategy for hardware the cluster does not have
                strats.append({"batch": 1, "runtime": rng.randint(1, 5), "req": req})
            tasks.append({"name": f"T{ti}", "ts": 0, "strats": strats})
        states = {}
        for ti, t in enumerate(tasks):
            parents = [a for a, b in edges if b == ti]
            pstates = [states[a] for a in parents]
            r = rng.random()
            if all(s == "COMPLETED" for s in pstates):
                st = (
                    "COMPLETED"
                    if r < 0.15 and ti < k - 1
                    else "RUNNING"
                    if r < 0.15 + p_running
                    else "SCHEDULED"
                    if r < 0.15 + p_running + p_sched
                    else "RELEASED"
                )
            elif all(s in ("COMPLETED", "RUNNING", "SCHEDULED") for s in pstates) and r < p_sched:
                st = "SCHEDULED"  # planned ahead by an earlier invocation
            else:
                st = "VIRTUAL"
            release = max(0, now - rng.randint(0, 3))
            plan_ = None
            if st in ("RUNNING", "SCHEDULED", "COMPLETED"):
                opts = []
                for wi in range(len(order)):
                    for si, s_ in enumerate(t["strats"]):
                        rt = s_["runtime"]
                        if st == "RUNNING":
                            started = min(now, max(release, now - rng.randint(0, max(0, rt - 1))))
                            remaining = max(1, rt - (now - started))
                            if fits(wi, s_["req"], now, now + remaining):
                                opts.append((wi, si, started, remaining))
                        elif st == "SCHEDULED":
                            at = now + rng.randint(1, 5)
                            if fits(wi, s_["req"], at, at + rt):
                                opts.append((wi, si, at, rt))
                        else:
                            if all(totals[wi].get(rr, 0) >= q for rr, q in s_["req"]):
                                opts.append((wi, si, release, 0))
                if not opts:
                    st = "RELEASED" if all(s == "COMPLETED" for s in pstates) else "VIRTUAL"
                else:
                    plan_ = rng.choice(opts)
            states[ti] = st
            t["state"] = st
            if st == "VIRTUAL":
                t["release"] = None if rng.random() < 0.6 else now + rng.randint(0, 6)
            else:
                t["release"] = release
            if st == "RELEASED" and rng.random() < 0.15 and flags["lookahead"] > 0:
                t["release"] = now + rng.randint(1, 4)
            if plan_ is not None:
                wi, si, at, rem = plan_
                if st == "RUNNING":
                    book(wi, t["strats"][si]["req"], now, now + rem)
                    t["prev"] = {"w": wi, "s": si, "time": at, "sched_at": t["release"], "remaining": rem}
                elif st == "SCHEDULED":
                    book(wi, t["strats"][si]["req"], at, at + rem)
                    t["prev"] = {"w": wi, "s": si, "time": at, "sched_at": max(0, now - 1)}
                else:
                    t["prev"] = {"w": wi, "s": si, "time": t["release"], "sched_at": t["release"], "finish": now}
            fastest = min(s["runtime"] for s in t["strats"])
            r = rng.random()
            if r < 0.1:
                d = now + fastest - rng.randint(0, 2)
            elif r < 0.3:
                d = now + fastest + rng.randint(0, 2)
            else:
                d = now + rng.randint(fastest + 1, horizon + 3 * ti)
            t["deadline"] = max(d, 0)
        graphs.append({"name": f"G{gi}", "tasks": tasks, "edges": edges})
    return {"now": now, "pools": pools, "graphs": graphs, "flags": flags, "uuid_seed": rng.randint(0, 10**9)}


def corpus(kind: str) -> list[dict]:
    """Hand-written minimal inputs of the known findings and quirks; always run first."""

    def task(name, state, strats, deadline, release=0, prev=None):
        t = {"name": name, "ts": 0, "state": state, "strats": strats, "deadline": deadline, "release": release}
        if prev:
            t["prev"] = prev
        return t

    def st(rt, cpu=1, gpu=0):
        req = ([["CPU", cpu]] if cpu else []) + ([["GPU", gpu]] if gpu else [])
        return {"batch": 1, "runtime": rt, "req": req}

    def pool(*ws):
        return [{"name": "P0", "workers": [{"name": f"W{i}", "res": r} for i, r in enumerate(ws)]}]

    flags = {"enforce_deadlines": True, "retract": False, "release_taskgraphs": False, "lookahead": 0}

    def g(name, tasks, edges=()):
        return {"name": name, "tasks": tasks, "edges": [list(e) for e in edges]}

    run_a = task("A", "RUNNING", [st(4)], 30, release=1, prev={"w": 0, "s": 0, "time": 2, "sched_at": 1, "remaining": 3})
    out = [
        # C11-Z3-1: VIRTUAL child of a RUNNING parent offered by lookahead
        {"now": 3, "pools": pool([["CPU", 2]]), "graphs": [g("G0", [run_a, task("B", "VIRTUAL", [st(2)], 30, release=None)], [(0, 1)])],
         "flags": dict(flags, lookahead=10), "uuid_seed": 3},
        # C11-Z3-1: VIRTUAL child of a SCHEDULED parent that is not re-offered
        {"now": 3, "pools": pool([["CPU", 2]]), "graphs": [g("G0", [
            task("A", "SCHEDULED", [st(4)], 30, release=1, prev={"w": 0, "s": 0, "time": 5, "sched_at": 2}),
            task("B", "VIRTUAL", [st(2)], 30, release=None)], [(0, 1)])],
         "flags": dict(flags, lookahead=10), "uuid_seed": 4},
        # C10-Z3-1: occupied worker (total 2, available 1), two unrelated offered tasks
        {"now": 3, "pools": pool([["CPU", 2]]), "graphs": [g("G0", [run_a]), g("G1", [task("B", "RELEASED", [st(2)], 30)]),
                                                          g("G2", [task("C", "RELEASED", [st(2)], 30)])],
         "flags": dict(flags), "uuid_seed": 5},
        # C10-Z3-2: a strategy for a resource no worker has available
        {"now": 0, "pools": pool([["CPU", 2]]), "graphs": [g("G0", [task("A", "RELEASED", [st(4), st(2, 0, 1)], 30)])],
         "flags": dict(flags), "uuid_seed": 6},
        # C10-Z3-3: a SCHEDULED task that is not re-offered is invisible to the encoding
        {"now": 3, "pools": pool([["CPU", 2]]), "graphs": [
            g("G0", [task("X", "SCHEDULED", [st(4, 2)], 30, release=1, prev={"w": 0, "s": 0, "time": 5, "sched_at": 2})]),
            g("G1", [task("Y", "RELEASED", [st(4, 1)], 30)])],
         "flags": dict(flags), "uuid_seed": 7},
        # C10-Z3-4: two CPU entries on one worker
        {"now": 0, "pools": pool([["CPU", 2], ["CPU", 1]]), "graphs": [g("G0", [task("A", "RELEASED", [st(4, 2)], 30)]),
                                                                      g("G1", [task("B", "RELEASED", [st(4, 2)], 30)])],
         "flags": dict(flags), "uuid_seed": 8},
        # heterogeneous two-worker cluster, chain + unrelated task, lookahead
        {"now": 0, "pools": pool([["CPU", 2]], [["CPU", 1], ["GPU", 1]]), "graphs": [
            g("G0", [task("A", "RELEASED", [st(4)], 30), task("B", "VIRTUAL", [st(2, 1, 1)], 30, release=None)], [(0, 1)]),
            g("G1", [task("C", "RELEASED", [st(3, 2)], 30)])],
         "flags": dict(flags, lookahead=10), "uuid_seed": 9},
        # soft deadlines (enforce_deadlines=False), task that fits nowhere
        {"now": 2, "pools": pool([["CPU", 1]]), "graphs": [g("G0", [task("A", "RELEASED", [st(3, 2)], 4)]),
                                                          g("G1", [task("B", "RELEASED", [st(3, 1)], 4)])],
         "flags": dict(flags, enforce_deadlines=False), "uuid_seed": 10},
    ]
    return out


# --------------------------------------------------------------------------
# One case
# --------------------------------------------------------------------------


def run_case(spec: dict):
    """Real side of one case. Returns (world, rec, driver_case or None)."""
    w = build_world(spec)
    rec = real_schedule(w)
    case = None
    rec["solved"] = False
    if rec.get("tasks") is not None:
        rec["inst"] = extract_inst(w, rec)
        sigma = None
        opt = rec["opt"]
        if rec["err"] is None and opt is not None and opt.checks and opt.checks[-1] == "sat":
            rec["solved"] = True
            sigma = solver_sigma(opt)
        rec["sigma"] = sigma
        case = {"suite": SUITE, "inst": rec["inst"], "sigma": sigma}
    return w, rec, case


def canonical_case(spec: dict) -> dict:
    c = {k: spec[k] for k in ("now", "pools", "graphs", "flags")}
    c.update({k: spec[k] for k in ("scale", "warmup") if spec.get(k)})  # flavours (harness/planners/_worlds.py)
    return c


def compare_case(w, rec, reply) -> list[str]:
    """Correspondence: captured assertions vs gen, placements vs decode, solver point vs sat."""
    dis = []
    if "protocol_error" in reply:
        return [f"driver protocol error: {reply['protocol_error']}"]
    if rec["err"] is not None or "err" in reply:
        real = None if rec["err"] is None else rec["err"].split(":")[0]
        model = reply.get("err")
        if model is None or real is None or model["cls"] != real or model["msg"] not in rec["err"]:
            return [f"exception outcome differs: real={rec['err']} model={model}"]
        return []
    dis += diff_models(canon_real(rec["opt"]), canon_lean(reply))
    for k, what in (("names", "offered unique names are not unique"), ("avail", "an entry has more available than total"),
                    ("states", "an offered task has started")):
        if not reply["wf"][k]:
            dis.append(f"extracted instance violates a hypothesis of the theorems: {what} (Inst.wf{k.capitalize()} = false)")
    real = real_decisions(w, rec)
    if rec["solved"]:
        if not reply.get("sat", False):
            dis.append(f"solver model does not satisfy gen inst: {reply.get('violated')[:3]}")
        if reply.get("decode") != real:
            dis.append(f"decode differs: real={real} model={reply.get('decode')}")
        ov = rec["sigma"].get("I:TASK_SLACK_SUM")
        if reply.get("objval") != ov:
            dis.append(f"objective value real={ov} model={reply.get('objval')}")
        if not reply.get("precedence_ok", False):
            dis.append("decoded plan violates precedence among offered tasks (model side)")
        if all(reply["wf"].values()) and not reply.get("capacity_ok", False):
            dis.append("decoded plan exceeds an available quantity although the instance is well-formed (model side)")
    else:
        if reply.get("decode_fail") != real:
            dis.append(f"failure decisions differ: real={real} model={reply.get('decode_fail')}")
    return dis


def counts_for(prop: str, tier: str) -> int:
    quick = {"C10": 60, "C11": 60}
    thorough = {"C10": 500, "C11": 500}
    return (quick if tier == "quick" else thorough)[prop]


KIND = {"C10": "mix", "C11": "dag"}


def gen_chain_b(rng) -> dict:
    """Chain-B world (see `_worlds.gen_chain_b`): retracting mode, RUNNING X -> SCHEDULED B -> VIRTUAL C declared in
    a non-topological order, `runtime(B) <= lookahead < remaining(X)`: nothing of the chain is schedulable; in
    the control worlds (lookahead 30) everything is re-offered."""
    b = _worlds.gen_chain_b(rng, now_choices=(0, 3, 7), extra_graph=True)
    flags = {
        "enforce_deadlines": rng.random() < 0.6,
        "retract": True,
        "release_taskgraphs": rng.random() < 0.15,
        "lookahead": b["lookahead"],
    }
    return {"now": b["now"], "pools": b["pools"], "graphs": b["graphs"], "flags": flags,
            "uuid_seed": rng.randint(0, 10**9), "flavour": "chain_b" + ("_control" if b["control"] else "")}


def mixed_corpus() -> list[dict]:
    """Hand-written mixed-unit world (1000x scale): the parent's slow strategy is written in ms next to a fast
    one in us (raw integers 5 < 2000); its duration in the encoding is `Task.remaining_time` = the slowest
    strategy's runtime; the child is offered by lookahead."""
    def st(rt, cpu, ms=False):
        d = {"batch": 1, "runtime": rt, "req": [["CPU", cpu]]}
        if ms:
            d["rt_ms"] = True
        return d

    flags = {"enforce_deadlines": True, "retract": False, "release_taskgraphs": False, "lookahead": 20000}
    return [
        {
            "now": 3000,
            "scale": 1000,
            "pools": [{"name": "P0", "workers": [{"name": "W0", "res": [["CPU", 2]]}]}],
            "graphs": [
                {
                    "name": "G0",
                    "tasks": [
                        {"name": "A", "ts": 0, "state": "RELEASED", "strats": [st(2000, 2), st(5000, 1, ms=True)], "deadline": 40000, "dl_ms": True, "release": 2000, "rel_ms": True},
                        {"name": "B", "ts": 0, "state": "VIRTUAL", "strats": [st(3000, 1)], "deadline": 40000, "release": None},
                    ],
                    "edges": [[0, 1]],
                    "decl": [1, 0],
                }
            ],
            "flags": dict(flags),
            "uuid_seed": 21,
        }
    ]


P_DECL, P_MIXED, P_WARM = 0.4, 0.25, 0.15


def _count_flavours(chk, name, spec):
    if spec.get("scale"):
        chk.count(f"{name}:flavour=1000x-scale" + (",mixed-units-in-one-profile" if _worlds.has_mixed_profile(spec) else ""))
    if any(g.get("decl") for g in spec["graphs"]):
        chk.count(f"{name}:flavour=declaration-order" + ("" if all(_worlds.is_topological_decl(g) for g in spec["graphs"]) else ",non-topological"))
    if spec.get("flavour"):
        chk.count(f"{name}:flavour={spec['flavour']}")
    if spec.get("warmup"):
        chk.count(f"{name}:flavour=warm-scheduler")


def gen_specs(prop: str, rng, tier: str, widened=False) -> list[dict]:
    n = counts_for(prop, tier)
    if widened:
        n *= 2
    r = rng.sub(f"z3/{prop}/{'w' if widened else 'n'}")
    fr = rng.sub(f"z3/{prop}/{'w' if widened else 'n'}/flavours")  # own stream: the base worlds stay what they were
    specs = list(corpus(KIND[prop]))
    n_corpus = len(specs)
    kinds = [KIND[prop]] if not widened else ["mix", "dag"]
    while len(specs) < n:
        specs.append(gen_world(r, r.choice(kinds)))
    for spec in specs[n_corpus:]:
        # flavours (harness/planners/_worlds.py): non-topological declaration order; 1000x scale with mixed units
        if fr.random() < P_DECL:
            _worlds.shuffle_decl(spec, fr)
        if fr.random() < P_MIXED:
            _worlds.scale_mixed(spec, fr)
    wr = rng.sub(f"z3/{prop}/{'w' if widened else 'n'}/warmup")
    for spec in specs[n_corpus:]:
        if wr.random() < P_WARM:
            _worlds.gen_warmup(spec, wr)
    specs[n_corpus:n_corpus] = mixed_corpus()
    # chain-B worlds in addition (10 %)
    for _ in range(max(4, n // 10)):
        spec = gen_chain_b(fr)
        if fr.random() < 0.3:
            _worlds.scale_mixed(spec, fr)
        specs.append(spec)
    return specs


def oracle_for(prop, w, rec) -> list[str]:
    if prop == "C10":
        return oracle_c10(w, rec)
    if prop == "C11":
        return oracle_c11(w, rec)
    return []


ADV = "satisfying assignment of the captured assertions: "


def all_failures(prop, w, rec) -> dict:
    """signature -> (detail, adversarial?) for one real outcome: the oracle on the returned
    Placements and the adversarial queries on the captured assertions."""
    out = {}
    for b in oracle_for(prop, w, rec):
        out.setdefault(f"z3 {prop}: {b}", (b, False))
    if rec["err"] is None and rec.get("opt") is not None and rec.get("tasks"):
        hits = adversarial_precedence(w, rec) if prop == "C11" else adversarial_c10(w, rec) if prop == "C10" else []
        for cls, what in hits:
            out.setdefault(f"z3 {prop}: {ADV}{cls}", (what, True))
    return out


def _report(prop, chk, spec, w, rec, case, found_input=True):
    """Oracles + adversarial queries on one real outcome."""
    for sig, (what, adv) in all_failures(prop, w, rec).items():
        if adv:
            chk.count("z3:adversarial-hit")
        chk.violation(sig, {"planner": NAME, "prop": prop, "spec": spec, "what": what, "adversarial": adv}, found_input=found_input)
    if rec["err"] is None and rec.get("opt") is not None and rec.get("tasks"):
        chk.count("z3:adversarial-queries")


def run(prop: str, chk, rng, tier: str) -> list[str]:
    prop = prop.upper()
    specs = gen_specs(prop, rng, tier)
    disagreements = []
    worlds, cases, idx = [], [], []
    t0 = _time.time()
    for spec in specs:
        w, rec, case = run_case(spec)
        worlds.append((spec, w, rec))
        if case is not None:
            idx.append(len(worlds) - 1)
            cases.append(case)
    replies = common.run_driver(cases) if cases else []
    by_world = {wi: r for wi, r in zip(idx, replies)}
    for wi, (spec, w, rec) in enumerate(worlds):
        reply = by_world.get(wi)
        f = spec["flags"]
        n_off = len(rec.get("offered", []))
        placed = 0 if rec["placements"] is None else sum(1 for p in rec["placements"] if p.is_placed())
        chk.case({"planner": NAME, "spec": canonical_case(spec)}, nontrivial=(n_off > 0 and reply is not None))
        chk.count(f"z3:offered={min(n_off, 5)}")
        chk.count(f"z3:placed={min(placed, 5)}")
        chk.count(f"z3:enforce={f['enforce_deadlines']},retract={f['retract']},release_tg={f['release_taskgraphs']}")
        _count_flavours(chk, "z3", spec)
        states = {t["state"] for g in spec["graphs"] for t in g["tasks"]}
        for s in sorted(states):
            chk.count(f"z3:world-has-{s}")
        if rec["err"]:
            chk.count("z3:raised")
        if reply is None:
            disagreements.append(f"[z3 case {wi}] real call produced no instance: err={rec['err']}")
            continue
        chk.count("z3:raised-predicted" if "err" in reply else "z3:sat" if rec["solved"] else "z3:no-model")
        if "wf" in reply and not (reply["wf"]["chains"] and reply["wf"]["single"]):
            chk.count("z3:instance-outside-capacity-theorem-hypotheses")
        chk.traces_validated += 1
        for x in compare_case(w, rec, reply):
            disagreements.append(f"[z3 case {wi}] {x} :: spec={json.dumps(canonical_case(spec))[:600]}")
        if not reachable_state(w, rec) and prop != "C11":
            chk.count("z3:unreachable-retract-state (oracles skipped)")
            continue
        # C11 is judged in every state: precedence between a placed child and its parents does not depend on
        # whether the SCHEDULED tasks the retracting frontier left out could have been left out in a run
        _report(prop, chk, spec, w, rec, reply)
    chk.extra.setdefault("planner_wall_s", {})[f"z3/{prop}"] = round(_time.time() - t0, 1)
    return disagreements


def search(prop: str, chk, rng, tier: str) -> None:
    """Failing-input search on the real code only (no Lean): widened generator + oracles
    (+ adversarial queries on the captured assertions for C11)."""
    prop = prop.upper()
    for spec in gen_specs(prop, rng, tier, widened=True):
        try:
            w, rec, case = run_case(spec)
        except Exception:
            continue
        if not reachable_state(w, rec) and prop != "C11":
            continue
        _report(prop, chk, spec, w, rec, case, found_input=True)


def replay(rp: dict) -> int:
    """Re-run one replay against the real code alone. 1 = the recorded failure reproduces."""
    spec, prop = rp["spec"], rp["prop"]
    w, rec, case = run_case(spec)
    sigs = all_failures(prop, w, rec)
    want = rp.get("signature")
    hit = [s for s in sigs if want is None or s == want]
    for s in hit:
        print(f"reproduced: {s} :: {sigs[s][0]}"[:400])
    for s in sigs:
        if s not in hit:
            print(f"(other failure on this input, not the recorded one: {s})")
    return 1 if hit else 0
